#!/bin/bash
# offline set-up: third-party contract libraries beside the repository's interpreter
set -e
cd "$(dirname "$0")"
export PIP_NO_INDEX=1
(
  flock 9
  if [ ! -d .deps/icontract ]; then
    /venv/bin/pip install --quiet --no-index --find-links /opt/veriftools/wheels --target .deps icontract deal 2>&1 | grep -v -i warning || true
  fi
) 9>.deps.lock
mkdir -p evidence replays
/venv/bin/python -c "import sys; sys.path.insert(0,'.deps'); import icontract; print('icontract', icontract.__version__)"
