#!/venv/bin/python
"""Re-run the checks against every kept seeded change (after checks were strengthened).
The change is applied in the scratch worktree /tmp/mut3 and the checks are pointed at it with
VERIF_REPO (no file of /repo is touched); evidence and replays go to scratch directories.
usage: tools/reeval_seeded.py [ID ...]   (default: all)"""
import glob, json, os, re, subprocess, sys
V = os.path.dirname(os.path.dirname(os.path.abspath(__file__)))
WT = os.environ.get("REEVAL_WT", "/tmp/mut3")
ids = sys.argv[1:] or sorted(os.path.basename(d) for d in glob.glob(os.path.join(V, "seeded", "*")))
env = {**os.environ, "VERIF_REPO": WT, "VERIF_EVIDENCE_DIR": "/var/tmp/vfw_re_ev" + WT.replace("/", "_"),
       "VERIF_REPLAY_DIR": "/var/tmp/vfw_re_rp" + WT.replace("/", "_")}
for sid in ids:
    d = os.path.join(V, "seeded", sid)
    meta = json.load(open(os.path.join(d, "meta.json")))
    head = subprocess.run("git -C /repo rev-parse HEAD", shell=True, capture_output=True, text=True).stdout.strip()
    subprocess.run(f"git -C {WT} checkout -q -- . && git -C {WT} checkout -q --detach {head} && git -C {WT} apply {d}/patch.diff",
                   shell=True, check=True)
    try:
        for c in list(meta["checks"]):
            outcome, keys = [], []
            for seed in ("0", "1"):
                r = subprocess.run(["./check", c, "--tier", "quick"], cwd=V, env={**env, "VERIF_SEED": seed}, capture_output=True, text=True)
                if r.returncode == 1 and "VIOLATION property=" in r.stdout:
                    outcome.append("FIRED")
                    keys += re.findall(r"\d+ x (\{.*\})", r.stdout)[:4]
                else:
                    outcome.append("silent" if r.returncode == 0 else f"exit{r.returncode}")
            meta["checks"][c] = {"fired": "FIRED" in outcome, "outcome": outcome, "keys": keys[:6]}
        meta["caught_by"] = [c for c, v in meta["checks"].items() if v["fired"]]
        meta["reevaluated"] = "checks re-run after strengthening, change applied in a scratch worktree (VERIF_REPO), seeds 0,1"
        json.dump(meta, open(os.path.join(d, "meta.json"), "w"), indent=1)
        print(sid, "caught_by", meta["caught_by"], {c: v["outcome"] for c, v in meta["checks"].items()}, flush=True)
    finally:
        subprocess.run(f"git -C {WT} checkout -q -- .", shell=True)
subprocess.run(f"rm -rf {env['VERIF_EVIDENCE_DIR']} {env['VERIF_REPLAY_DIR']}", shell=True)
print("REEVAL_DONE")
