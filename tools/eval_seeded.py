#!/venv/bin/python
"""Import seeded changes delivered by a sub-agent and evaluate the checks against them.

usage: tools/eval_seeded.py C07 [--extra C06,C02] [--seeds 0,1]
Reads /tmp/mut/out/<ID>/change{k}.diff, demo{k}.py, note{k}.txt; confirms (patch applies, the
repository's suite passes with it, demo fails with / passes without); keeps confirmed ones as
/verif/seeded/<ID>-<k>/{patch.diff,demo.py,meta.json}; runs the property's check (and extras).
"""
import argparse
import json
import os
import shutil
import subprocess
import sys

V = os.path.dirname(os.path.dirname(os.path.abspath(__file__)))


def main():
    ap = argparse.ArgumentParser()
    ap.add_argument("pid")
    ap.add_argument("--extra", default="")
    ap.add_argument("--seeds", default="0,1")
    ap.add_argument("--src", default="/tmp/mut/out")
    ap.add_argument("--offset", type=int, default=0, help="added to k for the kept id (second round: 2)")
    a = ap.parse_args()
    for k in (1, 2, 3):
        d = os.path.join(a.src, a.pid)
        patch, demo, note = (os.path.join(d, f"{n}{k}.{e}") for n, e in (("change", "diff"), ("demo", "py"), ("note", "txt")))
        if not (os.path.exists(patch) and os.path.exists(demo)):
            continue
        out = os.path.join(V, "seeded", f"{a.pid}-{k + a.offset}")
        os.makedirs(out, exist_ok=True)
        shutil.copy(patch, os.path.join(out, "patch.diff"))
        shutil.copy(demo, os.path.join(out, "demo.py"))
        checks = ",".join([a.pid] + [c for c in a.extra.split(",") if c])
        cmd = [os.path.join(V, "tools", "run_mutant.py"), os.path.join(out, "patch.diff"), "--checks", checks, "--baseline",
               "--demo", os.path.join(out, "demo.py"), "--seeds", a.seeds]
        r = subprocess.run(cmd, capture_output=True, text=True)
        line = [l for l in r.stdout.splitlines() if l.startswith("RESULT ")]
        if not line:
            print(a.pid, k, "evaluation failed:", r.stdout[-800:], r.stderr[-400:])
            continue
        res = json.loads(line[0][7:])
        confirmed = res.get("baseline_ok") and res.get("demo_clean_exit") == 0 and res.get("demo_mutant_exit") not in (0, None)
        meta = {
            "breaks_property": a.pid,
            "origin": "fresh sub-agent that saw only the property text and its own scratch worktree",
            "agent_note": open(note).read() if os.path.exists(note) else "",
            "confirmed": bool(confirmed),
            "confirmation": {"suite_same_passing_set_with_change": res.get("baseline_ok"),
                             "demo_exit_clean_tree": res.get("demo_clean_exit"),
                             "demo_exit_with_change": res.get("demo_mutant_exit"),
                             "ran": " ".join(cmd[1:])},
            "checks": res["checks"],
            "caught_by": [c for c, v in res["checks"].items() if v["fired"]],
        }
        json.dump(meta, open(os.path.join(out, "meta.json"), "w"), indent=1)
        print(f"{a.pid}-{k + a.offset}: confirmed={confirmed} caught_by={meta['caught_by']} "
              f"outcomes={ {c: v['outcome'] for c, v in res['checks'].items()} }")
        for c, v in res["checks"].items():
            for key in v["keys"][:3]:
                print("      ", c, key[:200])
        if not confirmed:
            print("   NOT CONFIRMED -> kept for inspection only:", meta["confirmation"])


if __name__ == "__main__":
    main()
