#!/venv/bin/python
"""Apply a seeded change to /repo, run checks against it, undo it straight afterwards.

usage: tools/run_mutant.py <patch.diff> [--checks C01,C07|all] [--tier quick] [--seeds 0,1] [--baseline]
Prints per check: FIRED (exit 1 + VIOLATION line) / silent / inconclusive, and the violation keys.
Never leaves /repo modified (git checkout -- . in a finally block); refuses to start on a dirty tree.
"""
import argparse
import json
import os
import re
import subprocess
import sys

V = os.path.dirname(os.path.dirname(os.path.abspath(__file__)))
ALL = [f"C{i:02d}" for i in range(1, 21)]


def sh(cmd, **kw):
    return subprocess.run(cmd, shell=True, capture_output=True, text=True, **kw)


def main():
    ap = argparse.ArgumentParser()
    ap.add_argument("patch")
    ap.add_argument("--checks", default="all")
    ap.add_argument("--tier", default="quick")
    ap.add_argument("--seeds", default="0")
    ap.add_argument("--baseline", action="store_true", help="also run the repository's own test-suite with the change")
    ap.add_argument("--demo", help="demonstration script: must FAIL with the change and PASS without")
    a = ap.parse_args()
    checks = ALL if a.checks == "all" else a.checks.split(",")
    if sh("git -C /repo status --porcelain").stdout.strip():
        print("refusing: /repo working tree is dirty")
        sys.exit(3)
    res = {"patch": a.patch, "checks": {}}
    if a.demo:
        r = sh(f"MPLBACKEND=Agg /venv/bin/python {a.demo}", cwd="/repo")
        res["demo_clean_exit"] = r.returncode
    a.patch = os.path.abspath(a.patch)
    ap_ = sh(f"git -C /repo apply {a.patch}")
    if ap_.returncode != 0:
        print("patch does not apply:", ap_.stderr[:500])
        sys.exit(3)
    try:
        if a.demo:
            r = sh(f"MPLBACKEND=Agg /venv/bin/python {a.demo}", cwd="/repo")
            res["demo_mutant_exit"] = r.returncode
            print(f"demo: clean exit={res['demo_clean_exit']} mutant exit={res['demo_mutant_exit']}")
        if a.baseline:
            r = sh(f"{V}/tools/baseline.py")
            res["baseline_ok"] = r.returncode == 0
            print("baseline with change:", "same passing set" if r.returncode == 0 else "DIFFERENT: " + r.stdout[-600:])
        for c in checks:
            fired, keys, outcome = False, [], []
            for seed in a.seeds.split(","):
                r = sh(f"VERIF_SEED={seed} VERIF_EVIDENCE_DIR=/var/tmp/vfw_mutant_ev VERIF_REPLAY_DIR=/var/tmp/vfw_mutant_rp "
                       f"./check {c} --tier {a.tier}", cwd=V)
                out = r.stdout
                if r.returncode == 1 and "VIOLATION property=" in out:
                    fired = True
                    keys += re.findall(r"\d+ x (\{.*\})", out)[:6]
                    outcome.append("FIRED")
                elif r.returncode == 0:
                    outcome.append("silent")
                else:
                    outcome.append(f"exit{r.returncode}")
                    m = re.findall(r"INCONCLUSIVE[^\n]*", out)
                    keys += [x[:300] for x in m[:2]]
            res["checks"][c] = {"fired": fired, "outcome": outcome, "keys": keys[:8]}
            print(f"{c}: {'/'.join(outcome)}", *[f"\n      {k[:220]}" for k in keys[:4]])
            sys.stdout.flush()
    finally:
        sh("git -C /repo checkout -- .")
        sh("rm -rf /var/tmp/vfw_mutant_ev /var/tmp/vfw_mutant_rp")  # evidence / replays of seeded faults are scratch
    print("RESULT " + json.dumps(res))


if __name__ == "__main__":
    main()
