#!/venv/bin/python
"""Rebuild the seeded-changes table in DESIGN.md from /verif/seeded/*/meta.json."""
import glob, json, os, re
V = os.path.dirname(os.path.dirname(os.path.abspath(__file__)))
rows = []
for m in sorted(glob.glob(os.path.join(V, "seeded", "*", "meta.json"))):
    d = json.load(open(m))
    sid = os.path.basename(os.path.dirname(m))
    note = " ".join(d.get("agent_note", "").split())
    what = note[:230] + ("..." if len(note) > 230 else "")
    ck = d.get("checks", {})
    caught = ", ".join(c for c, v in ck.items() if v["fired"]) or "**none**"
    silent = ", ".join(c for c, v in ck.items() if not v["fired"]) or "-"
    rows.append(f"| {sid} | {'yes' if d.get('confirmed') else 'NO'} | {what.replace('|', '/')} | {caught} | {silent} |")
tab = ("| id | confirmed | change (agent's note, truncated) | checks that fire | checks run that stay silent |\n|---|---|---|---|---|\n"
       + "\n".join(rows))
p = os.path.join(V, "DESIGN.md")
s = open(p).read()
if "SEEDED_TABLE_PLACEHOLDER" in s:
    s = s.replace("SEEDED_TABLE_PLACEHOLDER", "<!-- seeded-table-begin -->\n" + tab + "\n<!-- seeded-table-end -->")
else:
    s = re.sub(r"<!-- seeded-table-begin -->.*<!-- seeded-table-end -->", "<!-- seeded-table-begin -->\n" + tab.replace("\\", "\\\\") + "\n<!-- seeded-table-end -->", s, flags=re.S)
open(p, "w").write(s)
print(len(rows), "rows")
