#!/venv/bin/python
"""Like eval_seeded.py, but everything happens in a scratch worktree (REEVAL_WT, default /tmp/mut3):
/repo itself is never touched, so this can run while checks run against /repo.

usage: tools/eval_seeded_wt.py C07 --src /tmp/mut/out3 --offset 4 [--extra C06,C02]
Confirms each delivered change (demo passes on the clean tree / fails with the change; the repository's own
suite keeps its passing set with the change), keeps it as /verif/seeded/<ID>-<k+offset>/ and runs the checks
against it through VERIF_REPO.
"""
import argparse
import json
import os
import re
import shutil
import subprocess

V = os.path.dirname(os.path.dirname(os.path.abspath(__file__)))
WT = os.environ.get("REEVAL_WT", "/tmp/mut3")


def sh(cmd, **kw):
    return subprocess.run(cmd, shell=True, capture_output=True, text=True, **kw)


def main():
    ap = argparse.ArgumentParser()
    ap.add_argument("pid")
    ap.add_argument("--extra", default="")
    ap.add_argument("--seeds", default="0,1")
    ap.add_argument("--src", default="/tmp/mut/out3")
    ap.add_argument("--offset", type=int, default=4)
    ap.add_argument("--round", default="third")
    a = ap.parse_args()
    head = sh("git -C /repo rev-parse HEAD").stdout.strip()
    envp = {**os.environ, "PYTHONPATH": WT, "MPLBACKEND": "Agg"}
    for k in (1, 2, 3):
        d = os.path.join(a.src, a.pid)
        patch, demo, note = (os.path.join(d, f"{n}{k}.{e}") for n, e in (("change", "diff"), ("demo", "py"), ("note", "txt")))
        if not (os.path.exists(patch) and os.path.exists(demo)):
            continue
        sid = f"{a.pid}-{k + a.offset}"
        out = os.path.join(V, "seeded", sid)
        os.makedirs(out, exist_ok=True)
        shutil.copy(patch, os.path.join(out, "patch.diff"))
        shutil.copy(demo, os.path.join(out, "demo.py"))
        sh(f"git -C {WT} checkout -q -- . && git -C {WT} checkout -q --detach {head}")
        clean = subprocess.run(["/venv/bin/python", os.path.join(out, "demo.py")], cwd=WT, env=envp, capture_output=True, text=True)
        ap_ = sh(f"git -C {WT} apply {out}/patch.diff")
        if ap_.returncode != 0:
            print(sid, "patch does not apply:", ap_.stderr[:300])
            continue
        try:
            mut = subprocess.run(["/venv/bin/python", os.path.join(out, "demo.py")], cwd=WT, env=envp, capture_output=True, text=True)
            base = subprocess.run([os.path.join(V, "tools", "baseline.py")], env={**envp, "VERIF_REPO": WT}, capture_output=True, text=True)
            checks = [a.pid] + [c for c in a.extra.split(",") if c]
            res = {}
            for c in checks:
                outcome, keys = [], []
                for seed in a.seeds.split(","):
                    env = {**os.environ, "VERIF_REPO": WT, "VERIF_SEED": seed,
                           "VERIF_EVIDENCE_DIR": "/var/tmp/vfw_wt_ev" + WT.replace("/", "_"),
                           "VERIF_REPLAY_DIR": "/var/tmp/vfw_wt_rp" + WT.replace("/", "_")}
                    r = subprocess.run(["./check", c, "--tier", "quick"], cwd=V, env=env, capture_output=True, text=True)
                    if r.returncode == 1 and "VIOLATION property=" in r.stdout:
                        outcome.append("FIRED")
                        keys += re.findall(r"\d+ x (\{.*\})", r.stdout)[:4]
                    else:
                        outcome.append("silent" if r.returncode == 0 else f"exit{r.returncode}")
                res[c] = {"fired": "FIRED" in outcome, "outcome": outcome, "keys": keys[:6]}
        finally:
            sh(f"git -C {WT} checkout -q -- .")
        confirmed = base.returncode == 0 and clean.returncode == 0 and mut.returncode != 0
        meta = {
            "breaks_property": a.pid,
            "origin": f"fresh sub-agent that saw only the property text and its own scratch worktree ({a.round} round)",
            "agent_note": open(note).read() if os.path.exists(note) else "",
            "confirmed": bool(confirmed),
            "confirmation": {"suite_same_passing_set_with_change": base.returncode == 0,
                             "demo_exit_clean_tree": clean.returncode, "demo_exit_with_change": mut.returncode,
                             "ran": f"tools/eval_seeded_wt.py (scratch worktree {WT} at {head[:7]}, PYTHONPATH and VERIF_REPO pointing at it)"},
            "checks": res,
            "caught_by": [c for c, v in res.items() if v["fired"]],
        }
        json.dump(meta, open(os.path.join(out, "meta.json"), "w"), indent=1)
        print(f"{sid}: confirmed={confirmed} caught_by={meta['caught_by']} outcomes={ {c: v['outcome'] for c, v in res.items()} }", flush=True)
        if not confirmed:
            print("   NOT CONFIRMED:", meta["confirmation"], base.stdout[-300:])
    sh("rm -rf /var/tmp/vfw_wt_ev* /var/tmp/vfw_wt_rp*")


if __name__ == "__main__":
    main()
