#!/venv/bin/python
"""Run the repository's own test-suite (hooks/guard OFF) and compare the set of
passing tests with /root/.vp/BASELINE.json `stable_pass`.  Exit 0 iff every
stable-pass test still passes."""
import json, os, subprocess, sys, tempfile, xml.etree.ElementTree as ET

repo = os.environ.get("VERIF_REPO", "/repo")
base = json.load(open("/root/.vp/BASELINE.json"))
env = dict(os.environ)
env.pop("MAGPYLIB_VERIF", None)
env["MPLBACKEND"] = "Agg"
with tempfile.TemporaryDirectory(dir="/var/tmp") as td:
    xml = os.path.join(td, "junit.xml")
    cmd = ["/venv/bin/python", "-m", "pytest", "-ra", "-q", "-p", "no:cacheprovider",
           "--timeout=900", "--continue-on-collection-errors", f"--junitxml={xml}"]
    p = subprocess.run(cmd, cwd=repo, env=env, capture_output=True, text=True)
    tail = p.stdout.strip().splitlines()[-3:]
    passed = set()
    for tc in ET.parse(xml).getroot().iter("testcase"):
        if not any(ch.tag in ("failure", "error", "skipped") for ch in tc):
            passed.add(f"{tc.get('classname')}::{tc.get('name')}")
missing = [t for t in base["stable_pass"] if t not in passed]
print("\n".join(tail))
print(f"baseline stable_pass={len(base['stable_pass'])} passed_now={len(passed)} missing={len(missing)}")
for m in missing[:40]:
    print("  MISSING", m)
sys.exit(1 if missing else 0)
