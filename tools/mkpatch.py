#!/venv/bin/python
"""make a patch in the scratch worktree /tmp/mymut: mkpatch.py <out.diff> <file> <old> <new> [<file> <old> <new> ...]"""
import subprocess, sys
out = sys.argv[1]
args = sys.argv[2:]
wt = "/tmp/mymut"
subprocess.run(f"git -C {wt} checkout -q -- . && git -C {wt} checkout -q --detach $(git -C /repo rev-parse HEAD)", shell=True, check=True)
for i in range(0, len(args), 3):
    f, old, new = args[i:i + 3]
    p = f"{wt}/{f}"
    s = open(p).read()
    assert s.count(old) == 1, (f, old, s.count(old))
    open(p, "w").write(s.replace(old, new))
d = subprocess.run(f"git -C {wt} diff", shell=True, capture_output=True, text=True).stdout
open(out, "w").write(d)
subprocess.run(f"git -C {wt} checkout -q -- .", shell=True)
print(out, len(d.splitlines()), "lines")
