#!/venv/bin/python
"""(Re)generate /verif/MANIFEST.json from the table below + the property modules that exist."""
import json
import os

V = os.path.dirname(os.path.dirname(os.path.abspath(__file__)))
TRUST = ("CPython 3.12, numpy, scipy (Rotation, integrate, constants); the oracle/model code under /verif/vfw "
         "(self-tested in every run where stated); holds only on the executions produced.")

T = {
    "C01": ("exploration", "reference-model monitor: first-principles quadrature (Biot-Savart / surface charge + "
            "winding number) vs library output, with sys.monitoring branch probes",
            "Every class, observers stratified over formula branches (confirmed taken by in-frame probes); pointwise "
            "comparison with an independent adaptive-quadrature field. Sampling, not proof.", "5/C01"),
    "C02": ("exploration", "algebraic boundary monitor B=mu0H+J, J=mu0M, J in {0,pol} with independent geometric "
            "inside classifier", "Runtime identity monitor over all four fields incl. exact surface sets.", "5/C02"),
    "C03": ("exploration", "metamorphic monitor: rigidly moved setup vs rotated result", "Pairs of executions.", "5/C03"),
    "C04": ("exploration", "reference-model monitor of sensor bookkeeping + sys.monitoring probe on the three "
            "back-rotation paths", "Each sensor element recomputed from frozen rebuilt sources at global pixel "
            "positions; all three rotation code paths observed taken.", "5/C04"),
    "C05": ("exploration", "metamorphic monitor: explicit sums of leaf fields / scaled excitations", "", "5/C05"),
    "C06": ("exploration", "batch-vs-solo monitor over every output element", "", "5/C06"),
    "C07": ("exploration", "cross-interface equality monitor (OO, functional, core, dataframe, multi-source calls)", "", "5/C07"),
    "C08": ("fault_enumeration", "deep-digest state monitor + read-only input arrays + source-free failpoints "
            "(sys.monitoring) at every call-bearing line", "Public-API fault matrix and exhaustive crash-point "
            "enumeration of the tiling section.", "5/C08"),
    "C09": ("exploration", "sequential reference model of path semantics checked after every operation", "", "5/C09"),
    "C10": ("exploration", "relative-pose invariant monitor over collection trees", "", "5/C10"),
    "C11": ("exploration", "forest-invariant monitor over the universe of objects after every (also raising) "
            "operation", "", "5/C11"),
    "C12": ("exploration", "metamorphic monitor: exact power-of-two rescaling of all lengths (single sources, mesh status, whole multi-source setups)", "", "5/C12"),
    "C13": ("exploration", "identity monitors: whole vs parts, class vs class, mesh conversions at sizes 1e-6..1e3", "", "5/C13"),
    "C14": ("exploration", "adaptive quadrature of flux / circulation with the live getB/getH as integrand", "", "5/C14"),
    "C15": ("exploration", "non-finite sanitizer + loop back-edge budget (sys.monitoring) on special-set observers",
            "", "5/C15"),
    "C16": ("exploration", "mesh zoo with ground truth by construction + independent checkers, orientation reached by constructor / late reorient_faces() / after show()", "", "5/C16"),
    "C17": ("exploration", "spec-table monitor on constructor/setter boundary with traceback classification and "
            "alias sanitizer", "", "5/C17"),
    "C18": ("exploration", "object-graph alias sanitizer + mutation/digest monitor", "", "5/C18"),
    "C19": ("exploration", "draw-model monitor on plotly/generic traces (bodies, conductors, paths, animation frames, mesh status displays) + digest of objects/defaults", "", "5/C19"),
    "C20": ("exploration", "style precedence resolver vs effective style observed at point of use", "", "5/C20"),
}
NOTES = {}
if os.path.exists(os.path.join(V, "tools", "manifest_notes.json")):
    NOTES = json.load(open(os.path.join(V, "tools", "manifest_notes.json")))

checks, na = [], []
for pid, (level, tech, text, ref) in sorted(T.items()):
    mod = os.path.join(V, "vfw", "props", pid.lower() + ".py")
    if not os.path.exists(mod) or pid in NOTES.get("not_applicable", {}):
        na.append({"property_id": pid,
                   "reason": NOTES.get("not_applicable", {}).get(pid, "check not built yet in this round (planned, see DESIGN.md section " + ref + ")")})
        continue
    checks.append({
        "property_id": pid,
        "quick_cmd": f"./check {pid} --tier quick",
        "thorough_cmd": f"./check {pid} --tier thorough",
        "evidence_file": f"/verif/evidence/{pid}.json",
        "replay_cmd_template": f"./check {pid} --replay {{path}}",
        "engine": "vfw",
        "level_claimed": {"category": level, "text": NOTES.get("text", {}).get(pid, text) or tech, "design_ref": "DESIGN.md section " + ref},
        "level_note": TRUST,
        "technique": "runtime monitoring: " + tech,
    })
m = {
    "version": 1,
    "setup_cmd": "./setup.sh",
    "hooks": {
        "guard": "MAGPYLIB_VERIF",
        "enable": "no source hooks in /repo: all instrumentation attaches from /verif at run time (sys.monitoring, "
                  "rebinding wrappers); MAGPYLIB_VERIF=1 is exported by ./check and read only by /verif code",
        "baseline_off_cmd": "/verif/tools/baseline.py",
        "source_commits": [],
        "add_only": True,
    },
    "engines": [{"name": "vfw", "path": "/verif/vfw", "serves_properties": [c["property_id"] for c in checks],
                 "kind_free_text": "runtime monitors (boundary recorders, state digests, sys.monitoring probes / "
                                   "failpoints / loop budgets, reference-model oracles) driven by seeded workloads"}],
    "checks": checks,
    "not_applicable": na,
    "notes": "Exit 0 held / 1 VIOLATION / 2 INCONCLUSIVE (machinery failure only). Known findings: /verif/known_findings.json.",
}
json.dump(m, open(os.path.join(V, "MANIFEST.json"), "w"), indent=1)
import jsonschema
jsonschema.validate(m, json.load(open("/root/.vp/MANIFEST.schema.json")))
print("MANIFEST.json:", len(checks), "checks,", len(na), "not yet claimed")
