"""JSON-able specs of magpylib objects, random generators for them and the builder.

A spec is a plain dict: {"cls": "Cuboid", "dimension": [...], "polarization": [...],
"position": [[x,y,z],...], "orientation": [[qx,qy,qz,qw],...]}.  Collections carry
"children": [spec,...]; Sensors carry "pixel" and "handedness".  Every case the
monitors evaluate is stored as specs so a violation replays from its JSON file.
"""
from __future__ import annotations

import warnings

import numpy as np
from scipy.spatial.transform import Rotation as R

MAGNETS = ["Cuboid", "Cylinder", "CylinderSegment", "Sphere", "Tetrahedron", "TriangularMesh"]
SHEETS = ["Triangle"]
CURRENTS = ["Circle", "Polyline"]
MISC = ["Dipole"]
SOURCE_CLASSES = MAGNETS + SHEETS + CURRENTS + MISC

CUBE_V = np.array([[x, y, z] for x in (-0.5, 0.5) for y in (-0.5, 0.5) for z in (-0.5, 0.5)])


def quat_canon(q):
    q = np.atleast_2d(np.asarray(q, float))
    return q


# ----------------------------------------------------------------------------- random pieces
def rand_rot(rng, n=None, kind=None):
    """random rotation quaternion(s), several flavours incl. dangerous ones"""
    kind = kind or rng.choice(["uniform", "uniform", "axis", "near_id", "pi", "identity"],
                              p=[0.45, 0.2, 0.1, 0.1, 0.1, 0.05])
    m = 1 if n is None else n
    if kind == "uniform":
        q = R.random(m, random_state=int(rng.integers(2**31))).as_quat()
    elif kind == "axis":
        ax = np.eye(3)[rng.integers(0, 3, m)]
        ang = rng.choice([90, 180, 270, 45, -90], m)
        q = R.from_rotvec(ax * np.deg2rad(ang)[:, None]).as_quat()
    elif kind == "near_id":
        q = R.from_rotvec(rng.normal(size=(m, 3)) * 10.0 ** rng.uniform(-12, -2)).as_quat()
    elif kind == "pi":
        ax = rng.normal(size=(m, 3))
        ax /= np.linalg.norm(ax, axis=1)[:, None]
        q = R.from_rotvec(ax * np.pi).as_quat()
    else:
        q = np.tile([0.0, 0, 0, 1], (m, 1))
    return q.tolist()


def rand_vec(rng, scale=1.0, kind=None):
    kind = kind or rng.choice(["generic", "axis", "plane"], p=[0.6, 0.25, 0.15])
    v = rng.normal(size=3)
    if kind == "axis":
        k = rng.integers(0, 3)
        v = np.eye(3)[k] * rng.choice([-1, 1]) * abs(v[k] + 0.1)
    elif kind == "plane":
        v[rng.integers(0, 3)] = 0.0
    return (v * scale).tolist()


def rand_path(rng, n, scale=1.0):
    pos = (rng.normal(size=(n, 3)) * scale).tolist()
    ori = rand_rot(rng, n)
    return pos, ori


def rand_size(rng, lo=0.2, hi=3.0):
    return float(np.exp(rng.uniform(np.log(lo), np.log(hi))))


LIFECYCLE_BUILDS = [0]   # how many TriangularMesh objects were built through the late-reorientation history


def rand_mesh(rng, kind=None):
    """closed meshes with outward faces by construction: (vertices, faces)"""
    from scipy.spatial import ConvexHull

    kind = kind or rng.choice(["hull", "box", "tetra", "prism"])
    if kind == "box":
        d = np.array([rand_size(rng), rand_size(rng), rand_size(rng)])
        pts = CUBE_V * d + rng.normal(size=3) * 0.3
    elif kind == "tetra":
        pts = rng.normal(size=(4, 3))
        while abs(np.linalg.det(pts[1:] - pts[0])) < 0.2:
            pts = rng.normal(size=(4, 3))
    elif kind == "prism":
        n = int(rng.integers(3, 7))
        ph = np.sort(rng.uniform(0, 2 * np.pi, n)) if rng.random() < 0.3 else np.arange(n) * 2 * np.pi / n
        r = rand_size(rng, 0.4, 1.5)
        h = rand_size(rng, 0.3, 2)
        ring = np.c_[r * np.cos(ph), r * np.sin(ph)]
        pts = np.r_[np.c_[ring, np.full(n, -h / 2)], np.c_[ring, np.full(n, h / 2)]]
    else:
        pts = rng.normal(size=(int(rng.integers(5, 12)), 3))
    hull = ConvexHull(pts)
    used = np.unique(hull.simplices)
    remap = -np.ones(len(pts), int)
    remap[used] = np.arange(len(used))
    verts = pts[used]
    faces = remap[hull.simplices]
    # orient outward
    c = verts.mean(axis=0)
    for i, f in enumerate(faces):
        a, b, cc = verts[f]
        if np.dot(np.cross(b - a, cc - a), a - c) < 0:
            faces[i] = f[::-1]
    return verts.tolist(), faces.tolist()


def rand_source(rng, cls=None, path_len=1, pos_scale=1.0, excitation_scale=1.0):
    cls = cls or str(rng.choice(SOURCE_CLASSES))
    s = {"cls": cls}
    if cls == "Cuboid":
        s["dimension"] = [rand_size(rng), rand_size(rng), rand_size(rng)]
    elif cls == "Cylinder":
        s["dimension"] = [rand_size(rng), rand_size(rng)]
    elif cls == "CylinderSegment":
        r1 = float(rng.choice([0.0, rand_size(rng, 0.1, 1.0)]))
        r2 = r1 + rand_size(rng, 0.2, 1.5)
        h = rand_size(rng)
        p1 = float(rng.uniform(-360, 300))
        dphi = float(rng.choice([rng.uniform(5, 355), 360.0, 90.0, 180.0], p=[0.7, 0.1, 0.1, 0.1]))
        s["dimension"] = [r1, r2, h, p1, p1 + dphi]
    elif cls == "Sphere":
        s["diameter"] = rand_size(rng)
    elif cls == "Tetrahedron":
        v = rng.normal(size=(4, 3))
        while abs(np.linalg.det(v[1:] - v[0])) < 0.2:
            v = rng.normal(size=(4, 3))
        s["vertices"] = v.tolist()
    elif cls == "TriangularMesh":
        s["vertices"], s["faces"] = rand_mesh(rng)
        if rng.random() < 0.3:
            # object history instead of a fresh object: handed over with some facets wound the wrong way and
            # reorient_faces="skip", used once (mesh read / field evaluated), and only then reoriented through
            # the public method.  The specification still describes the same body (see build()).
            nf = len(s["faces"])
            s["lifecycle"] = {"flip": sorted(int(i) for i in rng.choice(nf, int(rng.integers(1, nf + 1)), replace=False)),
                              "touch": str(rng.choice(["mesh", "getB", "getH", "none"]))}
    elif cls == "Triangle":
        v = rng.normal(size=(3, 3))
        while np.linalg.norm(np.cross(v[1] - v[0], v[2] - v[0])) < 0.2:
            v = rng.normal(size=(3, 3))
        s["vertices"] = v.tolist()
    elif cls == "Circle":
        s["diameter"] = rand_size(rng)
        s["current"] = float(rng.normal() * excitation_scale + 0.1)
    elif cls == "Polyline":
        n = int(rng.integers(2, 6))
        s["vertices"] = (rng.normal(size=(n, 3))).tolist()
        s["current"] = float(rng.normal() * excitation_scale + 0.1)
    elif cls == "Dipole":
        s["moment"] = rand_vec(rng, excitation_scale)
    else:
        raise ValueError(cls)
    if cls in MAGNETS + SHEETS:
        s["polarization"] = rand_vec(rng, excitation_scale)
    pos, ori = rand_path(rng, path_len, pos_scale)
    s["position"], s["orientation"] = pos, ori
    return s


def rand_sensor(rng, path_len=1, pixel="auto", pos_scale=1.0, far=2.5):
    """sensor placed away from the origin region where sources live"""
    if pixel == "auto":
        kind = rng.choice(["none", "one", "n", "n1n2"])
        if kind == "none":
            pix = None
        elif kind == "one":
            pix = (rng.normal(size=3) * 0.2).tolist()
        elif kind == "n":
            pix = (rng.normal(size=(int(rng.integers(1, 5)), 3)) * 0.2).tolist()
        else:
            pix = (rng.normal(size=(int(rng.integers(1, 4)), int(rng.integers(1, 4)), 3)) * 0.2).tolist()
    else:
        pix = pixel
    pos = (rng.normal(size=(path_len, 3)) * pos_scale)
    d = rng.normal(size=3)
    d /= np.linalg.norm(d)
    pos = pos * 0.3 + d * far * 3
    return {
        "cls": "Sensor",
        "pixel": pix,
        "handedness": str(rng.choice(["right", "left"], p=[0.7, 0.3])),
        "position": pos.tolist(),
        "orientation": rand_rot(rng, path_len),
    }


# ----------------------------------------------------------------------------- builder
def build(spec, registry=None):
    """spec -> live magpylib object (warnings of the library silenced)"""
    import magpylib as magpy

    cls = spec["cls"]
    pos = np.array(spec.get("position", [[0.0, 0, 0]]), float)
    ori = R.from_quat(np.array(spec.get("orientation", [[0.0, 0, 0, 1]]), float))
    if pos.ndim == 2 and len(pos) == 1:
        pos = pos[0]
    if len(ori) == 1 and np.array(spec.get("orientation", [[0, 0, 0, 1]])).ndim == 2:
        ori = ori[0]
    kw = {"position": pos, "orientation": ori}
    if "style" in spec:
        kw["style"] = dict(spec["style"])
    with warnings.catch_warnings():
        warnings.simplefilter("ignore")
        if cls == "Collection":
            kids = [build(c, registry) for c in spec.get("children", [])]
            obj = magpy.Collection(*kids, **kw)
        elif cls == "Sensor":
            obj = magpy.Sensor(pixel=spec.get("pixel"), handedness=spec.get("handedness", "right"), **kw)
        elif cls == "CustomSource":
            if "ff" in spec:
                kw["field_func"] = make_field_func(spec["ff"])
            obj = magpy.misc.CustomSource(**kw)
        else:
            C = getattr(magpy.magnet, cls, None) or getattr(magpy.current, cls, None) or getattr(magpy.misc, cls)
            for k in ("dimension", "diameter", "vertices", "faces", "polarization", "magnetization",
                      "current", "moment"):
                if k in spec:
                    kw[k] = spec[k]
            for k in ("check_open", "check_disconnected", "check_selfintersecting", "reorient_faces"):
                if k in spec:
                    kw[k] = spec[k]
            life = spec.get("lifecycle") if cls == "TriangularMesh" and "reorient_faces" not in spec else None
            if life:
                F = np.array(spec["faces"])
                flip = [i for i in life["flip"] if i < len(F)]     # (a check may have swapped in another mesh)
                F[flip] = F[flip][:, ::-1]
                kw["faces"] = F
                obj = C(reorient_faces="skip", **kw)
                if life["touch"] == "mesh":
                    _ = obj.mesh
                elif life["touch"] in ("getB", "getH"):
                    getattr(obj, life["touch"])(np.array(spec["vertices"]).mean(axis=0) + np.array([0.01, 0.02, 0.03]))
                obj.reorient_faces(mode="ignore")
                LIFECYCLE_BUILDS[0] += 1
            else:
                obj = C(**kw)
    if registry is not None:
        registry.append(obj)
    return obj


def make_field_func(ff):
    """deterministic custom field function from a JSON-able description:
    B = A.obs + b (local frame), H = B * h ; J, M not implemented (None)"""
    A = np.array(ff["A"], float)
    b = np.array(ff["b"], float)
    h = float(ff.get("h", 2.0))

    def field_func(field, observers):
        if field == "B":
            return np.asarray(observers, float) @ A.T + b
        if field == "H":
            return (np.asarray(observers, float) @ A.T + b) * h
        return None

    return field_func


def rand_custom(rng, path_len=1, pos_scale=1.0):
    pos, ori = rand_path(rng, path_len, pos_scale)
    return {"cls": "CustomSource", "ff": {"A": (rng.normal(size=(3, 3)) * 0.3).tolist(), "b": rng.normal(size=3).tolist(),
                                          "h": float(rng.uniform(0.5, 3))},
            "position": pos, "orientation": ori}


def path_len(spec):
    return len(spec.get("position", [[0, 0, 0]]))


def freeze(spec, m):
    """the spec with its path frozen at index m (objects shorter than m stay at last pose)"""
    s = dict(spec)
    P = spec.get("position", [[0.0, 0, 0]])
    Q = spec.get("orientation", [[0.0, 0, 0, 1]])
    i = min(m, len(P) - 1)
    s["position"] = [P[i]]
    s["orientation"] = [Q[i]]
    if "children" in spec:
        s["children"] = [freeze(c, m) for c in spec["children"]]
    return s


def leaves(spec):
    if spec["cls"] == "Collection":
        out = []
        for c in spec.get("children", []):
            out += leaves(c)
        return out
    return [spec]


def size_of(spec):
    """characteristic size of a source spec (local frame)"""
    c = spec["cls"]
    if c == "Cuboid":
        return float(max(spec["dimension"]))
    if c == "Cylinder":
        return float(max(spec["dimension"]))
    if c == "CylinderSegment":
        return float(max(2 * spec["dimension"][1], spec["dimension"][2]))
    if c in ("Sphere", "Circle"):
        return float(spec["diameter"])
    if c in ("Tetrahedron", "Triangle", "Polyline", "TriangularMesh"):
        v = np.array(spec["vertices"], float)
        return float(np.linalg.norm(v.max(axis=0) - v.min(axis=0)))
    return 1.0


def exc_scale(spec):
    """field scale S of §4: |J| for magnets (T), mu0*I/(4 pi size) currents, mu0|m|/(4 pi size^3) dipoles -> as B"""
    c = spec["cls"]
    mu0 = 4e-7 * np.pi
    if "polarization" in spec:
        return float(np.linalg.norm(spec["polarization"]))
    if "magnetization" in spec:
        return float(np.linalg.norm(spec["magnetization"]) * mu0)
    if c in CURRENTS:
        return abs(spec["current"]) * mu0 / (4 * np.pi * size_of(spec))
    if c == "Dipole":
        return float(np.linalg.norm(spec["moment"])) * mu0 / (4 * np.pi)
    return 1.0
