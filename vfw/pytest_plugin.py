"""pytest plugin: run the repository's OWN test-suite with the universally valid monitors on.

  pytest -p vfw.pytest_plugin ...      (PYTHONPATH must contain /verif and /verif/.deps)

Monitors (each counts its evaluations; zero evaluations = that monitor is inconclusive):
 * path invariant as post-condition of BaseGeo.__init__/reset_path, the position/orientation setters and
   BaseTransform.move/_rotate: position is a float (N,3) array, len(position) == len(orientation) >= 1   (C09)
 * digest-before/after wrapper around getBH_level2, rebound in every module that imported it by
   name: objects handed to a field computation are unchanged whether it returns or raises  (C08)
 * forest consistency of every live Collection at the end of each test              (C11)
 * magpylib.defaults digest: unchanged by show() calls (wrapper around show)        (C19)
Results are written to the JSON file named by VFW_PLUGIN_OUT.
"""
from __future__ import annotations

import gc
import json
import os
import sys

import numpy as np

STATE = {"evals": {}, "violations": []}


def cnt(k, n=1):
    STATE["evals"][k] = STATE["evals"].get(k, 0) + n


def vio(kind, where, detail):
    if len(STATE["violations"]) < 200:
        STATE["violations"].append({"kind": kind, "where": where, "detail": str(detail)[:500]})


class InvariantBroken(Exception):
    pass


def path_invariant(self):
    cnt("invariant:path")
    p = getattr(self, "_position", None)
    o = getattr(self, "_orientation", None)
    if p is None or o is None:  # inside __init__ before the path exists
        return True
    ok = isinstance(p, np.ndarray) and p.ndim == 2 and p.shape[1] == 3 and p.dtype == float
    try:
        ok = ok and len(o) == len(p) >= 1
    except TypeError:
        ok = False
    if not ok:
        vio("path-invariant", type(self).__name__, f"pos shape {getattr(p, 'shape', None)} len(ori) {o}")
    return True  # record, never abort the repository's test


def install():
    import magpylib
    from magpylib._src.fields import field_wrap_BH as W
    from magpylib._src.obj_classes.class_BaseGeo import BaseGeo
    from magpylib._src.obj_classes.class_BaseTransform import BaseTransform
    from vfw import digest as D

    # ---- path invariant after every operation that can change a path.  (icontract.invariant on the class
    #      hierarchy was tried first: it wraps __new__ and breaks construction of these classes with
    #      "object.__new__() takes exactly one argument" - so the post-condition is attached by hand.)
    import functools

    def post(fn):
        @functools.wraps(fn)
        def w(self, *a, **k):
            try:
                return fn(self, *a, **k)
            finally:
                path_invariant(self)
        return w
    for cls, names in ((BaseTransform, ("move", "_rotate")), (BaseGeo, ("__init__", "reset_path"))):
        for n in names:
            setattr(cls, n, post(getattr(cls, n)))
            cnt("methods_with_postcondition")
    for pname in ("position", "orientation"):
        prop = getattr(BaseGeo, pname)
        setattr(BaseGeo, pname, property(prop.fget, post(prop.fset), prop.fdel, prop.__doc__))
        cnt("methods_with_postcondition")

    # ---- digest wrapper around getBH_level2, rebound wherever it was imported by name
    orig = W.getBH_level2

    def involved(sources, observers):
        objs = []

        def add(x):
            if isinstance(x, (list, tuple)):
                for y in x:
                    add(y)
            elif hasattr(x, "_position"):
                objs.append(x)
        add(sources)
        add(observers)
        return objs

    def wrapped(sources, observers, **kw):
        try:
            objs = involved(sources, observers)
            before = D.digest_many(objs)
        except Exception:
            objs, before = [], None
        try:
            return orig(sources, observers, **kw)
        finally:
            if before is not None:
                cnt("getBH_level2:digest_checks")
                try:
                    after = D.digest_many(objs)
                    if after != before:
                        vio("getBH-changed-objects", "getBH_level2", D.diff(before, after))
                except Exception as e:
                    cnt("getBH_level2:digest_error")
    for name, mod in list(sys.modules.items()):
        if name.startswith("magpylib") and getattr(mod, "getBH_level2", None) is orig:
            setattr(mod, "getBH_level2", wrapped)
            cnt("modules_rebound")

    # ---- show(): defaults untouched
    import magpylib._src.display.display as DD

    oshow = DD.show

    def show_wrapped(*a, **k):
        before = D.digest_defaults()
        try:
            return oshow(*a, **k)
        finally:
            cnt("show:defaults_checks")
            if D.digest_defaults() != before:
                vio("show-changed-defaults", "show", D.diff(before, D.digest_defaults()))
    for name, mod in list(sys.modules.items()):
        if name.startswith("magpylib") and getattr(mod, "show", None) is oshow:
            setattr(mod, "show", show_wrapped)


def forest_check(nodeid):
    from magpylib._src.obj_classes.class_Collection import BaseCollection
    from vfw.props import c11

    colls = [o for o in gc.get_objects() if isinstance(o, BaseCollection)]
    if not colls:
        return

    class U:
        pass
    u = U()
    objs = []
    seen = set()
    for c in colls:
        stack = [c]
        while stack:
            x = stack.pop()
            if id(x) in seen:
                continue
            seen.add(id(x))
            objs.append(x)
            stack.extend(getattr(x, "_children", []) or [])
            if getattr(x, "_parent", None) is not None:
                stack.append(x._parent)
    u.objs = objs
    u.register = lambda o: None
    cnt("forest_checks")
    try:
        bad = c11.check_invariants(u)
    except Exception as e:
        cnt("forest_check_error")
        return
    if bad:
        vio("forest-invariant-" + bad[0], nodeid, bad[1])


def pytest_configure(config):
    try:
        install()
        cnt("installed")
    except Exception as e:  # machinery failure: recorded, the run is then inconclusive
        STATE["install_error"] = repr(e)


def pytest_runtest_teardown(item, nextitem):
    try:
        forest_check(item.nodeid)
    except Exception:
        cnt("forest_check_error")


def pytest_sessionfinish(session, exitstatus):
    out = os.environ.get("VFW_PLUGIN_OUT")
    if out:
        with open(out, "w") as f:
            json.dump(STATE, f, indent=1)
