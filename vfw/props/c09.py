"""C09 - move/rotate and the pose setters follow the documented path semantics.

Reference-model monitor: every operation is applied to the live object and to the sequential
PathModel (vfw.oracles.pathmodel, written from the documentation); after EVERY operation the
object's (position, orientation) path is compared with the model's, plus the invariants
len(pos) == len(ori) >= 1, float dtype, shape (N,3).  rotate_from_* forms are driven with their
native arguments, the model with the equivalent scipy Rotation.  Rejected calls (whatever the
exception type) must leave the digest of the object and of all its descendants unchanged.
"""
from __future__ import annotations

import numpy as np
from scipy.spatial.transform import Rotation as R

from vfw import digest as D
from vfw.oracles.pathmodel import PathModel
from vfw.util import quiet, exc_info, rot_err

LEVEL = "exploration"
RULE = ("exhaustive single-operation grid (initial length 1-4 x scalar/vector n 1-4 x start in {'auto'} U "
        "[-L-3, L+3] x anchor {None,0,single,per-step} x {move, rotate, rotate_from_angax/rotvec/euler/matrix/mrp/"
        "quat, degrees on/off}) + random histories of 1-12 operations incl. setters, reset_path and a rejection "
        "grammar; non-trivial = padding happened, or start != default, or vector input; distinct by sha1 of "
        "(initial path, operation list)")
ASSUMPTIONS = ["scipy Rotation is the trusted rotation algebra",
               "a per-step anchor path and a vector rotation of different lengths: the shorter one is edge-padded at its "
               "end (the documented edge-padding philosophy); a (1,3) anchor with a scalar rotation: invariants only"]
FORMS = ["rotate", "angax", "rotvec", "euler1", "euler3", "matrix", "mrp", "quat"]


def plan(tier):
    return {"shards": 8 if tier == "quick" else 16, "budget_s": 25 if tier == "quick" else 300,
            "required_counters": ["grid_cases", "history_ops", "rejections_checked", "pad_before", "pad_behind"]
            + ["form:" + f for f in FORMS]}


# ------------------------------------------------------------------ op construction
def rand_rot_args(rng, form, scalar, n):
    """native arguments for a rotate_* form and the equivalent quaternion(s)"""
    m = 1 if scalar else n
    degrees = bool(rng.random() < 0.5)
    # the container the caller hands the numbers over in (the documentation accepts any array_like; a length-1
    # ndarray is vector input exactly like a length-1 list)
    op = {"form": form, "scalar": scalar, "degrees": degrees, "container": str(rng.choice(["list", "ndarray", "tuple"]))}
    if form in ("rotate", "matrix", "mrp", "quat", "rotvec"):
        rot = R.random(m, random_state=int(rng.integers(2**31)))
        if rng.random() < 0.2:
            rot = R.from_rotvec(np.eye(3)[rng.integers(0, 3, m)] * np.pi * rng.choice([0.5, 1.0, -0.5], m)[:, None])
        q = rot.as_quat()
        op["quat"] = q[0].tolist() if scalar else q.tolist()
    elif form == "angax":
        axis = rng.normal(size=3) if rng.random() < 0.6 else None
        if axis is None:
            op["axis"] = str(rng.choice(["x", "y", "z"]))
            ax = {"x": [1, 0, 0], "y": [0, 1, 0], "z": [0, 0, 1]}[op["axis"]]
        else:
            op["axis"] = axis.tolist()
            ax = axis
        ang = rng.uniform(-400, 400, m) if degrees else rng.uniform(-7, 7, m)
        op["angle"] = float(ang[0]) if scalar else ang.tolist()
        u = np.array(ax, float) / np.linalg.norm(ax)
        op["quat_equiv"] = R.from_rotvec(np.outer(np.deg2rad(ang) if degrees else ang, u)).as_quat().tolist()
    elif form == "euler1":
        seq = str(rng.choice(["x", "y", "z", "X", "Y", "Z"]))
        ang = rng.uniform(-400, 400, m) if degrees else rng.uniform(-7, 7, m)
        op["seq"], op["angle"] = seq, (float(ang[0]) if scalar else ang.tolist())
        op["quat_equiv"] = R.from_euler(seq, ang.reshape(-1, 1), degrees=degrees).as_quat().tolist()
    elif form == "euler3":
        seq = str(rng.choice(["xyz", "zyx", "ZXZ", "XYZ", "xy"]))
        ang = rng.uniform(-170, 170, (m, len(seq))) if degrees else rng.uniform(-3, 3, (m, len(seq)))
        op["seq"], op["angle"] = seq, (ang[0].tolist() if scalar else ang.tolist())
        op["quat_equiv"] = R.from_euler(seq, ang, degrees=degrees).as_quat().tolist()
    return op


def equiv_rotation(op):
    if "quat_equiv" in op:
        q = np.array(op["quat_equiv"], float)
        return R.from_quat(q[0]) if op["scalar"] else R.from_quat(q)
    q = np.array(op["quat"], float)
    return R.from_quat(q)


def make_anchor(rng, kind, n, scalar):
    if kind == "none":
        return None
    if kind == "zero":
        return 0
    if kind == "single":
        return rng.normal(size=3).tolist()
    if kind == "single2d":
        return rng.normal(size=(1, 3)).tolist()
    if scalar:
        return rng.normal(size=(1, 3)).tolist()
    k = n if rng.random() < 0.6 else int(rng.integers(1, n + 3))  # also shorter / longer anchor paths
    return rng.normal(size=(k, 3)).tolist()


def gen_op(rng, L, kind=None):
    kind = kind or str(rng.choice(["move", "rot", "set_position", "set_orientation", "reset", "bad"],
                                  p=[0.3, 0.4, 0.08, 0.08, 0.04, 0.1]))
    scalar = bool(rng.random() < 0.45)
    n = int(rng.integers(1, 5))
    start = "auto" if rng.random() < 0.35 else int(rng.integers(-L - 3, L + 4))
    if kind == "move":
        d = rng.normal(size=3) if scalar else rng.normal(size=(n, 3))
        return {"op": "move", "disp": d.tolist(), "start": start, "container": str(rng.choice(["list", "ndarray", "tuple"]))}
    if kind == "rot":
        form = str(rng.choice(FORMS))
        op = rand_rot_args(rng, form, scalar, n)
        ak = str(rng.choice(["none", "zero", "single", "single2d", "perstep"]))
        op.update({"op": "rot", "anchor": make_anchor(rng, ak, n, scalar), "anchor_kind": ak, "start": start})
        return op
    if kind == "set_position":
        m = int(rng.integers(1, 6))
        v = rng.normal(size=3) if rng.random() < 0.3 else rng.normal(size=(m, 3))
        return {"op": "set_position", "value": v.tolist()}
    if kind == "set_orientation":
        if rng.random() < 0.2:
            return {"op": "set_orientation", "quat": None}
        m = int(rng.integers(1, 6))
        q = R.random(m, random_state=int(rng.integers(2**31))).as_quat()
        return {"op": "set_orientation", "quat": q[0].tolist() if rng.random() < 0.3 else q.tolist()}
    if kind == "reset":
        return {"op": "reset"}
    return {"op": "bad", "which": int(rng.integers(0, len(BAD)))}


ROT1 = R.from_rotvec([0.1, 0.2, 0.3])
BAD = [
    ("move-str", lambda o: o.move("abc")),
    ("move-shape2", lambda o: o.move([1, 2])),
    ("move-rank3", lambda o: o.move([[[1, 2, 3]]])),
    ("move-start-float", lambda o: o.move((1, 2, 3), start=1.5)),
    ("move-start-str", lambda o: o.move((1, 2, 3), start="x")),
    ("move-start-none", lambda o: o.move([(1, 2, 3), (2, 3, 4)], start=None)),
    ("move-none", lambda o: o.move(None)),
    ("move-ragged", lambda o: o.move([(1, 2, 3), (1, 2)])),
    ("rotate-notrot", lambda o: o.rotate([0, 0, 0, 1])),
    ("rotate-str", lambda o: o.rotate("z")),
    ("rotate-anchor-str", lambda o: o.rotate(ROT1, anchor="abc")),
    ("rotate-anchor-shape", lambda o: o.rotate(ROT1, anchor=[1, 2])),
    ("rotate-anchor-number", lambda o: o.rotate(ROT1, anchor=1)),
    ("rotate-start-none", lambda o: o.rotate(ROT1, start=None)),
    ("rotate-start-float", lambda o: o.rotate(ROT1, anchor=(1, 1, 1), start=0.5)),
    ("angax-zero-axis", lambda o: o.rotate_from_angax(45, (0, 0, 0))),
    ("angax-angle-str", lambda o: o.rotate_from_angax("a", "z")),
    ("angax-axis-str", lambda o: o.rotate_from_angax(45, "q")),
    ("angax-axis-shape", lambda o: o.rotate_from_angax(45, (1, 2))),
    ("angax-degrees-int", lambda o: o.rotate_from_angax(45, "z", degrees=1)),
    ("angax-angle-2d", lambda o: o.rotate_from_angax([[1, 2], [3, 4]], "z")),
    ("euler-bad-seq", lambda o: o.rotate_from_euler(45, "q")),
    ("euler-mixed-seq", lambda o: o.rotate_from_euler((10, 20), "xY")),
    ("rotvec-shape", lambda o: o.rotate_from_rotvec([1, 2])),
    ("matrix-shape", lambda o: o.rotate_from_matrix([[1, 2], [3, 4]])),
    ("quat-shape", lambda o: o.rotate_from_quat([1, 2, 3])),
    ("quat-zero", lambda o: o.rotate_from_quat([0, 0, 0, 0])),
    ("mrp-shape", lambda o: o.rotate_from_mrp([1, 2])),
    ("position-str", lambda o: setattr(o, "position", "abc")),
    ("position-shape", lambda o: setattr(o, "position", [1, 2])),
    ("position-rank3", lambda o: setattr(o, "position", np.zeros((2, 2, 3)))),
    ("position-none", lambda o: setattr(o, "position", None)),
    ("position-empty", lambda o: setattr(o, "position", np.zeros((0, 3)))),
    ("orientation-list", lambda o: setattr(o, "orientation", [0, 0, 0, 1])),
    ("orientation-str", lambda o: setattr(o, "orientation", "z")),
    ("orientation-empty", lambda o: setattr(o, "orientation", R.from_quat(np.zeros((0, 4))))),
    ("move-anchor-kw", lambda o: o.move((1, 2, 3), anchor=0)),
    ("rotate-vector-with-bad-anchor-later", lambda o: o.rotate(R.from_rotvec([[0.1, 0, 0], [0.2, 0, 0]]),
                                                              anchor=[(1, 2, 3), (1, 2)])),
]


# ------------------------------------------------------------------ applying
def _as_container(op, value, default="ndarray"):
    c = op.get("container", default)
    if isinstance(value, (int, float)):
        return value
    if c == "ndarray":
        return np.array(value, dtype=float)
    if c == "tuple":
        def tup(v):
            return tuple(tup(x) for x in v) if isinstance(v, (list, tuple, np.ndarray)) else float(v)
        return tup(value)
    return np.array(value, dtype=float).tolist()


def apply_lib(obj, op):
    k = op["op"]
    if k == "move":
        obj.move(_as_container(op, op["disp"]), start=op["start"])
    elif k == "rot":
        a, st, f = op["anchor"], op["start"], op["form"]
        if a is not None and a != 0:
            a = np.array(a)
        if f == "rotate":
            obj.rotate(R.from_quat(np.array(op["quat"])), anchor=a, start=st)
        elif f == "angax":
            obj.rotate_from_angax(_as_container(op, op["angle"], "list"), op["axis"], anchor=a, start=st, degrees=op["degrees"])
        elif f == "rotvec":
            obj.rotate_from_rotvec(_as_container(op, R.from_quat(np.array(op["quat"])).as_rotvec(degrees=op["degrees"])), anchor=a,
                                   start=st, degrees=op["degrees"])
        elif f in ("euler1", "euler3"):
            obj.rotate_from_euler(_as_container(op, op["angle"], "list"), op["seq"], anchor=a, start=st, degrees=op["degrees"])
        elif f == "matrix":
            obj.rotate_from_matrix(_as_container(op, R.from_quat(np.array(op["quat"])).as_matrix()), anchor=a, start=st)
        elif f == "mrp":
            obj.rotate_from_mrp(_as_container(op, R.from_quat(np.array(op["quat"])).as_mrp()), anchor=a, start=st)
        elif f == "quat":
            obj.rotate_from_quat(_as_container(op, op["quat"]), anchor=a, start=st)
    elif k == "set_position":
        a = np.array(op["value"], dtype=float)
        obj.position = a
        a += 17.0     # the caller reuses its buffer: the stored path is the object's own
    elif k == "set_orientation":
        obj.orientation = None if op["quat"] is None else R.from_quat(np.array(op["quat"]))
    elif k == "reset":
        obj.reset_path()


def apply_model(model, op):
    """returns (decidable, pad_before, pad_behind)"""
    k = op["op"]
    if k == "move":
        b, e = model.move(op["disp"], op["start"])
        return True, b, e
    if k == "rot":
        rot = equiv_rotation(op)
        a = op["anchor"]
        scalar = op["scalar"]
        n = 1 if scalar else len(rot)
        if a == 0 and a is not None:
            a = [0.0, 0.0, 0.0]
        if a is not None:
            a = np.array(a, float)
            if a.ndim == 2:
                if scalar and len(a) == 1:
                    # a (1,3) anchor makes a scalar rotation a vector input of length 1 (code-defined
                    # promotion, not stated by the property): invariants only
                    return False, 0, 0
                if not scalar and len(a) != n:
                    # documented philosophy (docs_pos_ori.md): "whenever path entries beyond the existing path
                    # length are needed the edge-entries of the existing path are returned" - the shorter of
                    # (rotation input, anchor path) is edge-padded AT ITS END to the length of the longer
                    m = max(len(a), n)
                    if len(a) < m:
                        a = np.pad(a, ((0, m - len(a)), (0, 0)), "edge")
                    else:
                        rot = R.from_quat(np.pad(rot.as_quat(), ((0, m - n), (0, 0)), "edge"))
        b, e = model.rotate(rot, scalar, a, op["start"])
        return True, b, e
    if k == "set_position":
        model.set_position(op["value"])
    elif k == "set_orientation":
        model.set_orientation(op["quat"])
    elif k == "reset":
        model.reset()
    return True, 0, 0


def invariants(obj):
    p, o = obj._position, obj._orientation
    if not isinstance(p, np.ndarray) or p.ndim != 2 or p.shape[1] != 3 or p.dtype != float:
        return f"position not float (N,3): {getattr(p, 'shape', None)} {getattr(p, 'dtype', None)}"
    try:
        n = len(o)
    except TypeError:
        return "orientation is a single Rotation without length"
    if n != len(p):
        return f"len(position)={len(p)} != len(orientation)={n}"
    if n < 1:
        return "path length 0"
    return None


def new_object(rng, case):
    import magpylib as magpy

    P, Q = np.array(case["pos0"]), np.array(case["quat0"])
    kw = dict(position=P if len(P) > 1 else P[0], orientation=R.from_quat(Q if len(Q) > 1 else Q[0]))
    which = case.get("cls", "Sensor")
    if which == "Sensor":
        return magpy.Sensor(**kw)
    if which == "Cuboid":
        return magpy.magnet.Cuboid(dimension=(1, 2, 3), polarization=(0, 0, 1), **kw)
    # a collection with two children sharing its path length (descendants must follow / stay unchanged)
    c1 = magpy.Sensor(position=P + 1.0 if len(P) > 1 else P[0] + 1.0, orientation=kw["orientation"])
    c2 = magpy.magnet.Cuboid(dimension=(1, 1, 1), polarization=(1, 0, 0), position=kw["position"])
    if len(P) > 1:
        c2.position = P * 0.5
    return magpy.Collection(c1, c2, **kw)


def check_case(ctx, case):
    rng = np.random.default_rng(0)
    try:
        with quiet():
            obj = new_object(rng, case)
    except Exception as e:
        ctx.inconclusive_case("setup: " + repr(e)[:100], case)
        return
    model = PathModel(case["pos0"], case["quat0"])
    decidable = True
    for i, op in enumerate(case["ops"]):
        before = D.digest_tree(obj)
        if op["op"] == "bad":
            name, fn = BAD[op["which"]]
            try:
                with quiet():
                    fn(obj)
                raised = None
            except Exception as e:
                raised = e
            ctx.count("rejections_checked")
            ctx.count("reject_type:" + (type(raised).__name__ if raised else "ACCEPTED"))
            ctx.evaluated({"case": case, "upto": i}, nontrivial=True)
            if raised is not None:
                if D.digest_tree(obj) != before:
                    ctx.violation({"kind": "rejected-call-changed-object", "bad": name, "cls": case.get("cls")},
                                  {**case, "ops": case["ops"][: i + 1]},
                                  {"diff": D.diff(before, D.digest_tree(obj)), "raised": exc_info(raised)})
                    return
                continue
            inv = invariants(obj)
            if inv:
                ctx.violation({"kind": "invariant", "after": "accepted-bad:" + name}, {**case, "ops": case["ops"][: i + 1]},
                              {"invariant": inv})
                return
            decidable = False  # the model does not know what an accepted malformed call means
            continue
        try:
            with quiet():
                apply_lib(obj, op)
        except Exception as e:
            ctx.violation({"kind": "valid-op-raised", "op": op["op"], "form": op.get("form"), "type": type(e).__name__},
                          {**case, "ops": case["ops"][: i + 1]}, exc_info(e))
            return
        inv = invariants(obj)
        if inv:
            ctx.violation({"kind": "invariant", "after": op["op"]}, {**case, "ops": case["ops"][: i + 1]}, {"invariant": inv})
            return
        if decidable:
            ok, b, e = apply_model(model, op)
            decidable = decidable and ok
            if b:
                ctx.count("pad_before")
            if e:
                ctx.count("pad_behind")
        if op["op"] == "rot":
            ctx.count("form:" + op["form"])
            ctx.count("anchor:" + op["anchor_kind"])
        ctx.count("history_ops")
        if not decidable:
            ctx.count("ops_invariants_only")
            continue
        nontriv = op["op"] in ("move", "rot") and (bool(b or e) or op["start"] != "auto"
                                                     or not (op.get("scalar", np.array(op.get("disp", [0])).ndim == 1)))
        ctx.evaluated({"case": case, "upto": i}, nontrivial=bool(nontriv))
        P, Q = obj._position, obj._orientation.as_quat()
        scale = 1 + float(np.max(np.abs(model.pos)))
        bad = None
        if P.shape != model.pos.shape:
            bad = f"path length {len(P)} != model {len(model.pos)}"
        elif np.max(np.abs(P - model.pos)) > 1e-11 * scale:
            j = int(np.argmax(np.abs(P - model.pos).max(axis=1)))
            bad = f"position[{j}] {P[j]} != model {model.pos[j]}"
        elif rot_err(Q, model.quat) > 1e-11:
            bad = f"orientation differs by {rot_err(Q, model.quat)} rad"
        if bad:
            ctx.violation({"kind": "path!=model", "op": op["op"], "form": op.get("form"),
                           "anchor": op.get("anchor_kind"), "scalar": op.get("scalar")},
                          {**case, "ops": case["ops"][: i + 1]}, {"what": bad, "op": op})
            return


def grid_cases(rng, tier):
    """single-operation grid (complete in thorough, strided in quick)"""
    out = []
    for L in range(1, 5):
        for scalar, n in [(True, 1)] + [(False, k) for k in range(1, 5)]:
            for start in ["auto"] + list(range(-L - 3, L + 4)):
                for ak in ("none", "zero", "single", "perstep"):
                    for form in ["move"] + FORMS:
                        if form == "move" and ak != "none":
                            continue
                        out.append((L, scalar, n, start, ak, form))
    return out


def make_grid_case(rng, g):
    L, scalar, n, start, ak, form = g
    P, Q = rng.normal(size=(L, 3)), R.random(L, random_state=int(rng.integers(2**31))).as_quat()
    if form == "move":
        d = rng.normal(size=3) if scalar else rng.normal(size=(n, 3))
        op = {"op": "move", "disp": d.tolist(), "start": start, "container": str(rng.choice(["list", "ndarray", "tuple"]))}
    else:
        op = rand_rot_args(rng, form, scalar, n)
        op.update({"op": "rot", "anchor": make_anchor(rng, ak, n, scalar), "anchor_kind": ak, "start": start})
        if ak == "perstep" and scalar:
            op["anchor"] = op["anchor"][0]  # per-step anchor of a scalar input is one point
    return {"pos0": P.tolist(), "quat0": Q.tolist(), "ops": [op], "cls": "Sensor", "grid": True}


def run_shard(ctx):
    rng = ctx.rng
    grid = grid_cases(rng, ctx.tier)
    ctx.count("grid_size", len(grid) if ctx.shard == 0 else 0)
    mine = grid[ctx.shard::ctx.nshards]
    if ctx.tier == "quick":
        mine = [mine[i] for i in rng.permutation(len(mine))[: max(1, len(mine) // 4)]]
    done_grid = 0
    for g in mine:
        if ctx.expired():
            break
        check_case(ctx, make_grid_case(rng, g))
        ctx.count("grid_cases")
        done_grid += 1
    if done_grid == len(mine) and ctx.tier == "thorough":
        ctx.count("grid_slices_completed")
    while not ctx.expired():
        L = int(rng.integers(1, 5))
        P, Q = rng.normal(size=(L, 3)), R.random(L, random_state=int(rng.integers(2**31))).as_quat()
        ops = []
        Lcur = L
        for _ in range(int(rng.integers(1, 13))):
            ops.append(gen_op(rng, Lcur))
            Lcur = min(Lcur + 2, 8)
        check_case(ctx, {"pos0": P.tolist(), "quat0": Q.tolist(), "ops": ops,
                         "cls": str(rng.choice(["Sensor", "Cuboid", "Collection"]))})


def replay(ctx, case):
    check_case(ctx, case)
