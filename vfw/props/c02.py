"""C02 - B = mu0*H + J everywhere; J = mu0*M; J is the polarization inside, 0 outside;
currents/dipoles/triangles have J = M = 0; attribute relation polarization = mu0*magnetization.

Algebraic monitor at the API boundary over all four fields + independent geometric inside
classifier (vfw.oracles.geometry).  On surfaces (classifier band) either J value is accepted
but the identity must hold with the J that was returned.
"""
from __future__ import annotations

import numpy as np
from scipy.spatial.transform import Rotation as R

from vfw import objs, tol
from vfw.oracles import geometry as G
from vfw.util import quiet, exc_info

LEVEL = "exploration"
RULE = ("per class: random generic observers + exact special sets (faces, edges, corners, rims, axis, wedge sides) "
        "and their +-1,2,4 ulp neighbours, in pure-special and mixed batches; non-trivial = observer within 1e-6 "
        "relative of a surface or strictly inside a body; distinct by sha1 of (source spec, observer)")
ASSUMPTIONS = ["geometric inside classifier of /verif (exact comparisons in the local frame, solid-angle winding "
               "number for meshes)", "magpylib.mu_0 is the single exported constant"]
EPS = np.finfo(float).eps


def plan(tier):
    return {"shards": 8 if tier == "quick" else 16, "budget_s": 25 if tier == "quick" else 300,
            "required_counters": ["identity_rows", "inside_rows", "outside_rows", "band_rows", "attr_checks", "attr_fault_checks", "attr_fault_raised:warning-as-error", "attr_fault_raised:failpoint",
                                  "inout_forced"]}


def gen_case(rng):
    cls = str(rng.choice(objs.SOURCE_CLASSES))
    exact = rng.random() < 0.5
    s = objs.rand_source(rng, cls, path_len=1)
    if cls == "CylinderSegment" and rng.random() < 0.08:
        # degenerate but accepted input: opening angle 0 (a body of zero volume - nothing is inside)
        d = s["dimension"]
        s["dimension"] = [d[0], d[1], d[2], d[3], d[3]]
    if exact:  # identity pose: special points are exact in floating point
        s["position"] = [[0.0, 0.0, 0.0]]
        s["orientation"] = [[0.0, 0.0, 0.0, 1.0]]
    if rng.random() < 0.3 and "polarization" in s:
        k = int(rng.integers(0, 3))
        p = [0.0, 0.0, 0.0]
        p[k] = float(rng.normal() + 0.2)
        s["polarization"] = p
    if rng.random() < 0.15:
        sc = 10.0 ** rng.uniform(-12, 12)
        for k in ("polarization", "moment"):
            if k in s:
                s[k] = (np.array(s[k]) * sc).tolist()
        if "current" in s:
            s["current"] *= sc
    sp = G.special_points(s)
    size = objs.size_of(s)
    pts, kinds = [], []
    mode = str(rng.choice(["special_only", "mixed", "generic"], p=[0.3, 0.5, 0.2]))
    names = list(sp)
    n = int(rng.choice([1, 2, 5, 12]))
    for _ in range(n):
        u = rng.random()
        if mode != "generic" and (mode == "special_only" or u < 0.5) and names:
            nm = names[int(rng.integers(0, len(names)))]
            p = sp[nm]
            v = rng.random()
            if v < 0.35:
                nb = G.ulp_neighbours(p)
                p = nb[int(rng.integers(0, len(nb)))]
                nm += "~ulp"
            elif v < 0.5:
                p = p * (1 + rng.choice([-1, 1]) * 10.0 ** rng.uniform(-15, -7))
                nm += "~rel"
            pts.append(G.to_global(s, p)[0] if not exact else np.array(p, float))
            kinds.append(nm)
        else:
            d = rng.normal(size=3) * size * 10 ** rng.uniform(-1, 0.7)
            pts.append(np.array(s["position"][0]) + d)
            kinds.append("generic")
    return {"source": s, "observers": np.array(pts).tolist(), "kinds": kinds, "exact": exact,
            "via_sensor": bool(rng.random() < 0.25),
            # evaluate the source as the LATER entry of a two-source call whose first entry is a twin with the same
            # geometry and pose but another excitation (vectorised group of equal bodies)
            "twin_excitation": (rng.normal(size=3) + 0.3).tolist() if rng.random() < 0.35 else None}


def check_case(ctx, case):
    import magpylib as magpy

    s = case["source"]
    mu0 = magpy.mu_0
    src = objs.build(s)
    if case.get("twin_excitation") is not None:
        tw = dict(s)
        e = np.array(case["twin_excitation"], float)
        for k in ("polarization", "moment"):
            if k in tw:
                tw[k] = e.tolist()
        if "current" in tw:
            tw["current"] = float(e[0])
        src_call, pick = [objs.build(tw), src], 1
        ctx.count("twin_calls")
    else:
        src_call, pick = src, 0
    P = np.array(case["observers"], float)
    out = {}
    try:
        with quiet():
            if case["via_sensor"]:
                sq = objs.rand_rot(np.random.default_rng(len(P)), 1, "uniform")
                sens = magpy.Sensor(pixel=P, orientation=R.from_quat(sq[0]))
                # sensor at origin: pixels rotated -> evaluate at R.P, expressed in sensor frame
                for F in "BHJM":
                    out[F] = np.asarray(getattr(magpy, "get" + F)(src_call, sens, squeeze=False))[pick, 0, 0]
                Pg = R.from_quat(sq[0]).apply(P)
                frame = R.from_quat(sq[0])
            else:
                for F in "BHJM":
                    out[F] = np.asarray(getattr(magpy, "get" + F)(src_call, P, squeeze=False))[pick, 0, 0]
                Pg = P
                frame = None
    except Exception as e:
        # no output => nothing for the identity monitor to decide; termination / finiteness on special
        # sets is C15's property (its check drives the same point sets) - counted here, not judged
        ctx.count("exception_rows:" + type(e).__name__)
        ctx.inconclusive_case("library raised " + type(e).__name__, {"source": s, "kinds": case["kinds"]})
        return
    B, H, J, M = (out[F].reshape(-1, 3) for F in "BHJM")
    Pl = G.to_local(s, Pg)
    sd = G.side(s, Pl, rel=1e-9) if s["cls"] in objs.MAGNETS else np.full(len(P), -1)
    near = np.abs(G.depth(s, Pl)) < 1e-6 * objs.size_of(s) if s["cls"] in objs.MAGNETS else np.zeros(len(P), bool)
    pol_g = None
    if s["cls"] in objs.MAGNETS:
        pol_g = R.from_quat(s["orientation"][0]).apply(np.array(s["polarization"], float))
        if frame is not None:
            pol_g = frame.inv().apply(pol_g)
    for i in range(len(P)):
        kind = case["kinds"][i].split("~")[0]
        key = {"cls": s["cls"], "where": kind}
        item = {"source": s, "observer": case["observers"][i]}
        ctx.evaluated(item, nontrivial=bool(near[i] or sd[i] == 1))
        ctx.count("identity_rows")
        ctx.count({1: "inside_rows", -1: "outside_rows", 0: "band_rows"}[int(sd[i])])
        vals = np.r_[B[i], H[i], J[i], M[i]]
        if not np.all(np.isfinite(vals)):
            # documented singular points (C15 decides finiteness); identity not decidable on non-finite values
            ctx.count("nonfinite_rows")
            continue
        res = B[i] - mu0 * H[i] - J[i]
        scale = np.linalg.norm(B[i]) + mu0 * np.linalg.norm(H[i]) + np.linalg.norm(J[i])
        if np.linalg.norm(res) > 1e-12 * scale + 1e-300:
            ctx.violation({**key, "kind": "B!=mu0H+J"}, case,
                          {"i": i, "B": B[i], "mu0H": mu0 * H[i], "J": J[i], "local": Pl[i], "where": case["kinds"][i]})
            continue
        if np.linalg.norm(J[i] - mu0 * M[i]) > 4 * EPS * np.linalg.norm(J[i]) + 1e-300:
            ctx.violation({**key, "kind": "J!=mu0M"}, case, {"i": i, "J": J[i], "M": M[i]})
            continue
        if s["cls"] not in objs.MAGNETS:
            if np.any(J[i] != 0) or np.any(M[i] != 0):
                ctx.violation({**key, "kind": "J!=0 for non-magnet"}, case, {"i": i, "J": J[i]})
            continue
        isz = np.linalg.norm(J[i]) <= 1e-14 * np.linalg.norm(pol_g)
        isp = np.linalg.norm(J[i] - pol_g) <= 1e-13 * np.linalg.norm(pol_g) + 1e-300
        if not (isz or isp):
            ctx.violation({**key, "kind": "J not in {0,pol}"}, case, {"i": i, "J": J[i], "pol": pol_g})
        elif sd[i] == 1 and not isp:
            ctx.violation({**key, "kind": "J=0 strictly inside"}, case,
                          {"i": i, "J": J[i], "pol": pol_g, "local": Pl[i], "depth": G.depth(s, Pl[i:i + 1])[0]})
        elif sd[i] == -1 and not isz:
            dep = float(G.depth(s, Pl[i:i + 1])[0])
            # the library's touch band is 1e-7 of the largest extent of the mesh (it was an absolute 1e-7 before the
            # unit-independence repair; this bucket was still absolute and a thorough run met a mesh of extent 3.7
            # with an observer 2.3e-7 outside): bucket relative to the extent
            ext = float(np.ptp(np.array(s["vertices"], float), axis=0).max()) if "vertices" in s else objs.size_of(s)
            ctx.violation({**key, "kind": "J=pol strictly outside",
                           "depth/extent": "<=1.5e-7" if abs(dep) <= 1.5e-7 * ext else ">1.5e-7"}, case,
                          {"i": i, "J": J[i], "local": Pl[i], "depth": G.depth(s, Pl[i:i + 1])[0]})
    # in_out forced, only when truthful for the whole batch
    if s["cls"] in ("Tetrahedron", "TriangularMesh") and not case["via_sensor"]:
        for mode, val in (("inside", 1), ("outside", -1)):
            # certified truthful only clear of the library's 1e-7 (of the mesh extent) touch band (known finding
            # trimesh-inside-band-1e-7, monitored by the J checks above)
            ext_m = float(np.ptp(np.array(s["vertices"], float), axis=0).max())
            if np.all(sd == val) and np.all(np.abs(G.depth(s, Pl)) > 2e-7 * ext_m):
                with quiet():
                    Bf = np.asarray(magpy.getB(src, P, squeeze=False, in_out=mode))[0, 0, 0].reshape(-1, 3)
                ctx.count("inout_forced")
                # same formula through another batch composition: rounding level incl. the class floor
                if not tol.close_a(Bf, B, tol.floor_abs(s, "B"), rtol=1e-9)[0]:
                    ctx.violation({"cls": s["cls"], "kind": "in_out forced != auto", "mode": mode}, case,
                                  {"forced": Bf[0], "auto": B[0]})


def attr_checks(ctx):
    """polarization = mu_0 * magnetization after every assignment (constructor and setter)"""
    import magpylib as magpy

    rng = ctx.rng
    mu0 = magpy.mu_0
    for cls in objs.MAGNETS + objs.SHEETS:
        s = objs.rand_source(rng, cls)
        for which in ("polarization", "magnetization"):
            for how in ("ctor", "setter"):
                v = np.array(objs.rand_vec(rng)) * 10.0 ** rng.uniform(-12, 12)
                s2 = {k: x for k, x in s.items() if k != "polarization"}
                case = {"cls": cls, "which": which, "how": how, "value": v.tolist()}
                try:
                    with quiet():
                        if how == "ctor":
                            s2[which] = v.tolist()
                            o = objs.build(s2)
                        else:
                            o = objs.build(s)
                            setattr(o, which, v.tolist())
                    pol, mag = o.polarization, o.magnetization
                except Exception as e:
                    ctx.violation({"kind": "attr-exception", "cls": cls}, case, exc_info(e))
                    continue
                ctx.count("attr_checks")
                ctx.evaluated(case, nontrivial=True)
                stored = pol if which == "polarization" else mag
                if not np.array_equal(stored, v):
                    ctx.violation({"kind": "attr-not-stored", "which": which}, case, {"stored": stored})
                if np.max(np.abs(pol - mu0 * mag)) > 4 * EPS * np.max(np.abs(pol)):
                    legacy = 4 * np.pi * 1e-7
                    mech = ("conversion uses 4*pi*1e-7" if np.max(np.abs(pol - legacy * mag)) <= 4 * EPS * np.max(np.abs(pol))
                            else "other")
                    ctx.violation({"kind": "polarization!=mu_0*magnetization", "mechanism": mech}, case,
                                  {"pol": pol, "mu0*mag": mu0 * mag,
                                   "rel": float(np.max(np.abs(pol - mu0 * mag)) / np.max(np.abs(pol)))})


def attr_fault_checks(ctx):
    """the attribute relation also holds when an assignment FAILS part-way: a weak magnetization (valid, but
    warned about) with warnings escalated to errors, and an injected fault at every call line of the two
    setters.  Afterwards polarization and magnetization are both None or obey J = mu_0 M."""
    import warnings

    import magpylib as magpy
    from magpylib._src.obj_classes.class_BaseExcitations import BaseMagnet
    from vfw import probes

    rng = ctx.rng
    mu0 = magpy.mu_0
    pr = ctx.safety
    points = [("warning-as-error", None, None)]
    for which in ("magnetization", "polarization"):
        f = getattr(BaseMagnet, which).fset
        try:
            for line, text in probes.call_lines(f).items():
                points.append(("failpoint", f, line))
        except Exception:
            ctx.count("probe_unattached:setter_" + which)
    for cls in objs.MAGNETS + objs.SHEETS:
        for mode, f, line in points:
            for which in ("magnetization", "polarization"):
                if f is not None and f is not getattr(BaseMagnet, which).fset:
                    continue
                for start in ("set", "unset"):
                    s = objs.rand_source(rng, cls)
                    if start == "unset":
                        s = {k: x for k, x in s.items() if k not in ("polarization", "magnetization")}
                    v = np.array(objs.rand_vec(rng)) * (10.0 ** rng.uniform(0, 3) if which == "magnetization"
                                                        else 10.0 ** rng.uniform(-6, 1))
                    case = {"cls": cls, "which": which, "mode": mode, "line": line, "start": start, "value": v.tolist()}
                    try:
                        with quiet():
                            o = objs.build(s)
                    except Exception as e:
                        ctx.inconclusive_case("setup failed " + repr(e)[:100], case)
                        continue
                    raised = None
                    cb = None
                    if f is not None:
                        def cb(fr):
                            raise probes.InjectedFault(f"{which}.setter:{line}")
                        code = f.__code__
                        pr.line_cbs.setdefault((code, line), []).append(cb)
                        pr.codes.add(code)
                        pr._apply(code)
                    try:
                        with warnings.catch_warnings():
                            warnings.simplefilter("error" if mode == "warning-as-error" else "ignore")
                            setattr(o, which, v.tolist())
                    except (Warning, probes.InjectedFault) as e:
                        raised = type(e).__name__
                    except Exception as e:
                        ctx.violation({"kind": "attr-exception", "cls": cls}, case, exc_info(e))
                        continue
                    finally:
                        if cb is not None:
                            pr.line_cbs[(code, line)].remove(cb)
                            if not pr.line_cbs[(code, line)]:
                                del pr.line_cbs[(code, line)]
                            if not any(c is code for c, _ in pr.line_cbs):
                                pr.codes.discard(code)
                            pr._apply(code)
                    ctx.count("attr_fault_checks")
                    if raised:
                        ctx.count("attr_fault_raised:" + mode)
                    ctx.evaluated(case, nontrivial=raised is not None)
                    pol, mag = o.polarization, o.magnetization
                    if pol is None and mag is None:
                        continue
                    bad = None
                    if pol is None or mag is None:
                        bad = "one of polarization/magnetization is None, the other is set"
                    elif np.max(np.abs(pol - mu0 * mag)) > 1e-9 * np.max(np.abs(pol)):   # legacy constant: attr_checks
                        bad = "polarization != mu_0*magnetization"
                    if bad:
                        ctx.violation({"kind": "attrs-inconsistent-after-failed-assignment", "mode": mode, "which": which},
                                      case, {"pol": pol, "mag": mag, "raised": raised, "what": bad})


def run_shard(ctx):
    attr_checks(ctx)
    attr_fault_checks(ctx)
    while not ctx.expired():
        check_case(ctx, gen_case(ctx.rng))
        if ctx.rng.random() < 0.02:
            attr_checks(ctx)


def replay(ctx, case):
    if "mode" in case:
        ctx.rng = np.random.default_rng(0)
        attr_fault_checks(ctx)
    elif "which" in case:
        ctx.rng = np.random.default_rng(0)
        attr_checks(ctx)
    else:
        check_case(ctx, case)
