"""C05 - superposition: collections and sumup add fields; fields are linear in the excitation.

Metamorphic monitor: getX(list with nested collections, sumup on/off) vs explicit sums of
single-leaf calls (each leaf rebuilt from its spec, documented path padding = frozen at last
pose); B(c*e) = c*B(e); B(e1+e2) = B(e1)+B(e2).  Probe: the (src_ind, col_len) sequence the
library's collection-reduction loop actually went through.
"""
from __future__ import annotations

import numpy as np

from vfw import objs, tol
from vfw.util import quiet, exc_info

LEVEL = "exploration"
RULE = ("random source lists of 1-6 entries mixing bare sources and collections nested to depth 3 (adjacent / "
        "first / last / repeated, unequal path lengths, sumup on/off, 1-3 sensors); linearity cases per class with "
        "scale factors -1, 0, 1e-12..1e12; non-trivial = a collection with >1 leaf or nesting, or sumup over >1 "
        "source, or a scaling/sum case; distinct by sha1 of the case spec")
ASSUMPTIONS = ["single-leaf evaluation through the public API defines the field of one source"]
STATE = {"on": False}


def pick_len(rng, maxlen):
    """1, the longest path, or a length strictly in between (a shorter object then rests at its LAST pose)"""
    return int(rng.choice([1, maxlen, int(rng.integers(1, maxlen + 1))]))


def plan(tier):
    return {"shards": 8 if tier == "quick" else 16, "budget_s": 25 if tier == "quick" else 300,
            "required_counters": ["super_cases", "linear_cases", "sumagg_cases", "reduction_loop_visits"]}


def rand_tree(rng, depth, L):
    n = int(rng.integers(1, 4))
    kids = []
    for _ in range(n):
        if depth > 0 and rng.random() < 0.35:
            kids.append(rand_tree(rng, depth - 1, L))
        elif rng.random() < 0.15:
            kids.append(objs.rand_custom(rng, path_len=L))
        else:
            kids.append(objs.rand_source(rng, path_len=L))
    pos, ori = objs.rand_path(rng, L, 0.3)
    if rng.random() < 0.3:  # some sensors inside (ignored as sources)
        kids.insert(int(rng.integers(0, len(kids) + 1)), objs.rand_sensor(rng, path_len=L))
    return {"cls": "Collection", "children": kids, "position": pos, "orientation": ori}


def src_leaves(spec):
    return [l for l in objs.leaves(spec) if l["cls"] != "Sensor"]


def gen_super(rng):
    maxlen = int(rng.choice([1, 1, 2, 4]))
    n = int(rng.integers(1, 7))
    entries = []
    for _ in range(n):
        L = pick_len(rng, maxlen)
        if rng.random() < 0.5:
            t = rand_tree(rng, int(rng.integers(0, 3)), L)
            if not src_leaves(t):
                t["children"].append(objs.rand_source(rng, path_len=L))
            entries.append(t)
        elif rng.random() < 0.2:
            entries.append(objs.rand_custom(rng, path_len=L))
        else:
            entries.append(objs.rand_source(rng, path_len=L))
    if rng.random() < 0.2 and len(entries) > 1:
        entries.append(entries[int(rng.integers(0, len(entries)))])  # same entry in two places
    nobs = int(rng.integers(1, 4))
    if rng.random() < 0.25 and maxlen == 1:
        # two magnets of the same class next to each other in the list (TriangularMeshes: same number of faces),
        # observers INSIDE one of them and outside the other: the inside term belongs to one summand only
        cls = str(rng.choice(["TriangularMesh", "TriangularMesh", "Tetrahedron", "Cuboid", "Cylinder", "CylinderSegment", "Sphere"]))
        a, b = objs.rand_source(rng, cls, path_len=1), objs.rand_source(rng, cls, path_len=1)
        if cls == "TriangularMesh":
            kindm = str(rng.choice(["box", "tetra"]))
            for x in (a, b):
                Vm, Fm = objs.rand_mesh(rng, kindm)
                x["vertices"], x["faces"] = np.asarray(Vm).tolist(), np.asarray(Fm).tolist()
        b["position"] = (np.array(b["position"]) + 6.0 * np.array(objs.rand_vec(rng)) / np.linalg.norm(objs.rand_vec(rng))).tolist()
        k = int(rng.integers(0, len(entries) + 1))
        entries[k:k] = [a, b]
    if rng.random() < 0.5:
        obs = {"positions": (rng.normal(size=(nobs, 3)) * 3).tolist()}
        mags = [e for e in entries if e["cls"] in objs.MAGNETS and len(e["position"]) == 1]
        if mags and maxlen == 1:
            from vfw.oracles import geometry as G
            from vfw.props.c06 import interior_point

            m = mags[int(rng.integers(0, len(mags)))]
            obs["positions"][0] = G.to_global(m, interior_point(m))[0].tolist()
    else:
        pix = objs.rand_sensor(rng)["pixel"]
        obs = {"sensors": [objs.rand_sensor(rng, path_len=pick_len(rng, maxlen), pixel=pix) for _ in range(nobs)]}
    has_custom = any(l["cls"] == "CustomSource" for e in entries for l in objs.leaves(e))
    return {"type": "super", "entries": entries, "obs": obs, "sumup": bool(rng.random() < 0.5),
            "field": str(rng.choice(list("BH" if has_custom else "BHJM")))}


def build_obs(obs):
    if "positions" in obs:
        return np.array(obs["positions"], float)
    return [objs.build(s) for s in obs["sensors"]]


def obs_at(obs, m):
    if "positions" in obs:
        return np.array(obs["positions"], float)
    return [objs.build(objs.freeze(s, m)) for s in obs["sensors"]]


def check_super(ctx, case):
    import magpylib as magpy
    from vfw.runner import case_hash

    F = case["field"]
    get = getattr(magpy, "get" + F)
    built = {}
    srcs = []
    for e in case["entries"]:
        h = case_hash(e)
        if h not in built:
            built[h] = objs.build(e)
        srcs.append(built[h])
    try:
        with quiet():
            STATE["on"] = True
            got = np.asarray(get(srcs, build_obs(case["obs"]), sumup=case["sumup"], squeeze=False))
            STATE["on"] = False
    except Exception as e:
        STATE["on"] = False
        ctx.violation({"kind": "exception", "type": type(e).__name__}, case, exc_info(e))
        return
    lens = [objs.path_len(l) for e in case["entries"] for l in src_leaves(e)]
    lens += [objs.path_len(s) for s in case["obs"].get("sensors", [])]
    M = max(lens)
    # reference: explicit sums of single leaf calls, path index by path index
    ref = []
    for e in case["entries"]:
        per_m = []
        for m in range(M):
            tot = 0.0
            for leaf in src_leaves(e):
                with quiet():
                    tot = tot + np.asarray(get(objs.build(objs.freeze(leaf, m)), obs_at(case["obs"], m), squeeze=False))[0, 0]
            per_m.append(tot)
        ref.append(per_m)
    ref = np.array(ref)
    if case["sumup"]:
        ref = ref.sum(axis=0, keepdims=True)
    nleaf = [len(src_leaves(e)) for e in case["entries"]]
    nontriv = any(n > 1 for n in nleaf) or (case["sumup"] and len(nleaf) > 1)
    ctx.count("super_cases")
    arr = ",".join(("C%d" % n) if e["cls"] == "Collection" else "S" for e, n in zip(case["entries"], nleaf))
    seen = ctx.__dict__.setdefault("_arr", set())
    if arr not in seen:
        seen.add(arr)
        ctx.count("distinct_arrangement_shapes")
        if len(seen) <= 8:
            ctx.count("arrangement_example:" + arr)
    ctx.evaluated(case, nontrivial=nontriv, n=int(np.prod(ref.shape[:-1])))
    if got.shape != ref.shape:
        ctx.violation({"kind": "shape"}, case, {"got": got.shape, "want": ref.shape})
        return
    fl = sum(tol.floor_abs(e, F) for e in case["entries"])
    # tolerance 1e-10 * sum |terms| : use the magnitude of the largest leaf term via ref scale + floors
    ok, w = tol.close_a(got, ref, fl, rtol=1e-9)
    if not ok:
        ctx.violation({"kind": "sum-mismatch", "sumup": case["sumup"], "field": F}, case,
                      {"ratio": w, "got": got.ravel()[:6], "want": ref.ravel()[:6]})


def gen_linear(rng):
    cls = str(rng.choice(objs.SOURCE_CLASSES))
    s = objs.rand_source(rng, cls, path_len=int(rng.choice([1, 2])))
    kind = str(rng.choice(["scale", "sum"]))
    c = float(rng.choice([-1.0, 0.0, 10.0 ** rng.uniform(-12, 12), rng.normal()]))
    e2 = objs.rand_vec(rng)
    P = (rng.normal(size=(int(rng.integers(1, 5)), 3)) * 2).tolist()
    if rng.random() < 0.4 and cls in objs.MAGNETS:
        from vfw.props.c06 import interior_point
        from vfw.oracles import geometry as G

        P[0] = G.to_global(s, interior_point(s))[0].tolist()
    return {"type": "linear", "source": s, "kind": kind, "c": c, "e2": e2, "observers": P,
            "field": str(rng.choice(list("BH")))}


def with_exc(s, f):
    s2 = dict(s)
    for k in ("polarization", "moment"):
        if k in s:
            s2[k] = f(np.array(s[k], float)).tolist()
    if "current" in s:
        s2["current"] = float(f(np.array(s["current"], float)))
    return s2


def check_linear(ctx, case):
    import magpylib as magpy

    s, F = case["source"], case["field"]
    get = getattr(magpy, "get" + F)
    P = np.array(case["observers"], float)

    def ev(spec):
        with quiet():
            return np.asarray(get(objs.build(spec), P, squeeze=False))

    try:
        base = ev(s)
        if case["kind"] == "scale":
            c = case["c"]
            got = ev(with_exc(s, lambda e: e * c))
            ref = c * base
            fl = abs(c) * tol.floor_abs(s, F)
        else:
            e2 = np.array(case["e2"], float)
            s_b = with_exc(s, lambda e: (e2 if e.shape == (3,) else e2[0]))
            got = ev(with_exc(s, lambda e: e + (e2 if e.shape == (3,) else e2[0])))
            ref = base + ev(s_b)
            fl = tol.floor_abs(s, F) + tol.floor_abs(s_b, F)
    except Exception as e:
        ctx.violation({"kind": "exception", "type": type(e).__name__, "cls": s["cls"]}, case, exc_info(e))
        return
    ctx.count("linear_cases")
    ctx.evaluated(case, nontrivial=True, n=len(P))
    # sums of two fields may cancel: compare relative to the terms, not the (possibly tiny) sum
    scale = float(np.max(np.abs(base))) + float(np.max(np.abs(ref)))
    ok, w = tol.close_a(got, ref, fl + 1e-12 * scale, rtol=1e-9)
    if not ok:
        ctx.violation({"kind": "non-linear", "how": case["kind"], "cls": s["cls"], "field": F}, case,
                      {"ratio": w, "got": got.ravel()[:3], "want": ref.ravel()[:3]})


AGGS = ["mean", "max", "min", "median", "std", "ptp", "sum", "var"]


def gen_sumagg(rng):
    """sumup together with pixel_agg: 'sumup=True returns the sum over sources' of exactly what sumup=False
    returns, whatever the (possibly non-linear) pixel aggregator is"""
    maxlen = int(rng.choice([1, 1, 3]))
    entries = []
    for _ in range(int(rng.integers(2, 5))):
        L = pick_len(rng, maxlen)
        if rng.random() < 0.4:
            t = rand_tree(rng, int(rng.integers(0, 2)), L)
            if not src_leaves(t):
                t["children"].append(objs.rand_source(rng, path_len=L))
            entries.append(t)
        else:
            entries.append(objs.rand_source(rng, path_len=L))
    sens = []
    same = rng.random() < 0.6
    shp = tuple(int(x) for x in rng.integers(1, 4, size=int(rng.integers(1, 3))))
    for _ in range(int(rng.integers(1, 4))):
        if not same:
            shp = tuple(int(x) for x in rng.integers(1, 4, size=int(rng.integers(1, 3))))
        pix = (rng.normal(size=shp + (3,)) * 0.6).tolist()
        sens.append(objs.rand_sensor(rng, path_len=pick_len(rng, maxlen), pixel=pix, far=1.0))
    return {"type": "sumagg", "entries": entries, "obs": {"sensors": sens}, "agg": str(rng.choice(AGGS)),
            "field": str(rng.choice(list("BH")))}


def check_sumagg(ctx, case):
    import magpylib as magpy

    F = case["field"]
    get = getattr(magpy, "get" + F)
    try:
        with quiet():
            srcs = [objs.build(e) for e in case["entries"]]
            each = np.asarray(get(srcs, build_obs(case["obs"]), sumup=False, pixel_agg=case["agg"], squeeze=False))
            srcs = [objs.build(e) for e in case["entries"]]
            tot = np.asarray(get(srcs, build_obs(case["obs"]), sumup=True, pixel_agg=case["agg"], squeeze=False))
    except Exception as e:
        ctx.violation({"kind": "exception", "type": type(e).__name__, "agg": True}, case, exc_info(e))
        return
    ctx.count("sumagg_cases")
    ctx.count("sumagg:" + case["agg"])
    ref = each.sum(axis=0, keepdims=True)
    ctx.evaluated(case, nontrivial=True, n=int(np.prod(ref.shape[:-1])))
    if tot.shape != ref.shape:
        ctx.violation({"kind": "shape", "agg": True}, case, {"got": tot.shape, "want": ref.shape})
        return
    fl = sum(tol.floor_abs(e, F) for e in case["entries"])
    ok, w = tol.close_a(tot, ref, fl + 1e-12 * float(np.max(np.abs(each))), rtol=1e-9)
    if not ok:
        ctx.violation({"kind": "sumup!=sum-of-entries", "agg": case["agg"], "field": F}, case,
                      {"ratio": w, "got": tot.ravel()[:6], "want": ref.ravel()[:6]})


def check_case(ctx, case):
    {"super": check_super, "linear": check_linear, "sumagg": check_sumagg}[case["type"]](ctx, case)


def attach_probe(ctx):
    from magpylib._src.fields import field_wrap_BH as W

    def cb(fr):
        if STATE["on"] and "col_len" in fr.f_locals:
            ctx.count("reduction_loop_visits")

    ctx.safety.on_line(W.getBH_level2, "B[src_ind] = np.sum(B[src_ind : src_ind + col_len], axis=0)", cb,
                       name="getBH_level2.collection_reduction")


def run_shard(ctx):
    attach_probe(ctx)
    for u in ctx.safety.unattached:
        ctx.count("probe_unattached:" + u)
    while not ctx.expired():
        u = ctx.rng.random()
        case = gen_super(ctx.rng) if u < 0.5 else (gen_linear(ctx.rng) if u < 0.88 else gen_sumagg(ctx.rng))
        check_case(ctx, case)


def replay(ctx, case):
    check_case(ctx, case)
