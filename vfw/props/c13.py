"""C13 - a body gives the same field however it is represented or subdivided.

Identity monitors over pairs of executions of the real code:
 cuboid      = sub-cuboids from random cut planes = ConvexHull mesh = 5 / 6 tetrahedra = 12 Triangle sheets (H)
 cylinder    = CylinderSegment(0,360) = angular x radial x axial sub-segments (also hollow / partial)
 sphere(out) = Dipole with m = J V / mu0
 polygon     -> Circle: err(2n) <= 0.3 err(n) while err > 1e-9|H|, err(2048) <= 1e-5 |H|
 mesh        = to_TriangleCollection (H) = from_triangles = from_mesh ; all with pose and paths
"""
from __future__ import annotations

import itertools

import numpy as np
from scipy.spatial.transform import Rotation as R

from vfw import objs, tol
from vfw.oracles import geometry as G
from vfw.util import quiet, exc_info

LEVEL = "exploration"
RULE = ("random bodies, polarizations, poses (paths of length 1-3), cut positions and numbers of parts; observers "
        "inside one part / outside all / near cut planes, kept >= 1e-3 sizes away from every surface and cut plane; "
        "non-trivial = more than one part or a change of class; distinct by sha1 of the case")
ASSUMPTIONS = ["tolerance 1e-6 relative + sum of the class floors of all parts (tol.py)"]
IDENT = ["cuboid_cuts", "cuboid_mesh_parts", "cuboid_mesh", "cuboid_tetra5", "cuboid_tetra6", "cuboid_triangles", "cylinder_full_segment",
         "cylinder_segments", "segment_subsegments", "sphere_dipole", "polygon_circle", "mesh_conversions"]


def plan(tier):
    return {"shards": 8 if tier == "quick" else 16, "budget_s": 30 if tier == "quick" else 480,
            "required_counters": ["identity:" + i for i in IDENT]}


def pose(rng, L):
    P, Q = objs.rand_path(rng, L)
    return P, Q


def place(spec, offset_local, P, Q):
    """spec positioned at parent pose (P,Q path) with a local offset"""
    Rq = R.from_quat(np.array(Q))
    s = dict(spec)
    s["position"] = (np.array(P) + Rq.apply(np.array(offset_local, float))).tolist()
    s["orientation"] = Q
    return s


def observers(rng, body_spec, n, cuts_local=None):
    """global observers at path index 0 of the body, off surfaces and cut planes"""
    size = objs.size_of(body_spec)
    out = []
    tries = 0
    while len(out) < n and tries < 200:
        tries += 1
        u = rng.random()
        p = rng.normal(size=3) * size * (0.35 if u < 0.5 else 1.5 if u < 0.85 else 8)
        if abs(G.depth(body_spec, p[None])[0]) < 2e-3 * size:
            continue
        if cuts_local is not None and any(abs(f(p)) < 2e-3 * size for f in cuts_local):
            continue
        out.append(p)
    return G.to_global(body_spec, np.array(out)) if out else np.zeros((0, 3))


def fields(specs, P, F, sumup=True):
    import magpylib as magpy

    with quiet(), np.errstate(all="ignore"):
        srcs = [objs.build(s) if isinstance(s, dict) else s for s in specs]
        return np.asarray(getattr(magpy, "get" + F)(srcs, P, sumup=sumup, squeeze=False))[0]


CUBE_IDX = np.array([[x, y, z] for x in (0, 1) for y in (0, 1) for z in (0, 1)])  # index = 4x+2y+z


def cube_vertices(dim):
    return (CUBE_IDX - 0.5) * np.array(dim)


def vid(x, y, z):
    return 4 * x + 2 * y + z


TET5 = [(vid(1, 0, 0), vid(0, 1, 0), vid(0, 0, 1), vid(1, 1, 1)), (vid(0, 0, 0), vid(1, 0, 0), vid(0, 1, 0), vid(0, 0, 1)),
        (vid(1, 1, 0), vid(1, 0, 0), vid(0, 1, 0), vid(1, 1, 1)), (vid(1, 0, 1), vid(1, 0, 0), vid(0, 0, 1), vid(1, 1, 1)),
        (vid(0, 1, 1), vid(0, 1, 0), vid(0, 0, 1), vid(1, 1, 1))]
TET6 = []
for perm in itertools.permutations(range(3)):
    p0 = [0, 0, 0]
    p1 = list(p0)
    p1[perm[0]] = 1
    p2 = list(p1)
    p2[perm[1]] = 1
    TET6.append((vid(*p0), vid(*p1), vid(*p2), vid(1, 1, 1)))


def gen_case(rng):
    ident = IDENT[int(rng.integers(0, len(IDENT)))]
    L = int(rng.choice([1, 1, 2, 3]))
    P, Q = pose(rng, L)
    pol = objs.rand_vec(rng)
    case = {"identity": ident, "P": P, "Q": Q, "pol": pol, "seed": int(rng.integers(0, 2**31)),
            "field": str(rng.choice(["B", "H"]))}
    if ident == "mesh_conversions":
        # bodies from micrometres to kilometres, optionally thin films: the conversions must keep the geometry they
        # are given, whatever its size
        case["size"] = float(rng.choice([1.0, 1.0, 1e-3, 1e-6, 1e-6, 1e3]))
        case["thin"] = float(rng.choice([1.0, 1.0, 1e-1, 1e-2, 1e-3]))
    return case


def check_case(ctx, case):
    import magpylib as magpy

    rng = np.random.default_rng(case["seed"])
    ident, P, Q, pol, F = case["identity"], case["P"], case["Q"], case["pol"], case["field"]
    mu0 = magpy.mu_0
    nobs = 5
    try:
        whole, parts, obs, note = None, None, None, ""
        if ident.startswith("cuboid"):
            dim = (10 ** rng.uniform(-0.4, 0.4, 3)).tolist()
            whole = {"cls": "Cuboid", "dimension": dim, "polarization": pol, "position": P, "orientation": Q}
            cuts = None
            if ident in ("cuboid_cuts", "cuboid_mesh_parts"):
                edges = []
                for a in range(3):
                    k = int(rng.integers(0, 4))
                    c = np.sort(rng.uniform(-0.45, 0.45, k)) * dim[a]
                    edges.append(np.r_[-dim[a] / 2, c, dim[a] / 2])
                parts = []
                for i, j, k in itertools.product(*[range(len(e) - 1) for e in edges]):
                    lo = np.array([edges[0][i], edges[1][j], edges[2][k]])
                    hi = np.array([edges[0][i + 1], edges[1][j + 1], edges[2][k + 1]])
                    if ident == "cuboid_cuts":
                        parts.append(place({"cls": "Cuboid", "dimension": (hi - lo).tolist(), "polarization": pol}, (lo + hi) / 2, P, Q))
                    else:  # every part as a 12-face TriangularMesh, all parts in ONE call (equal face counts)
                        from vfw.oracles import meshes as M

                        Vb, Fb = M.box((hi - lo).tolist(), ((lo + hi) / 2).tolist())
                        parts.append({"cls": "TriangularMesh", "vertices": Vb.tolist(), "faces": Fb.tolist(), "polarization": pol,
                                      "position": P, "orientation": Q})
                cuts = [(lambda p, a=a, c=c: p[a] - c) for a in range(3) for c in edges[a][1:-1]]
            elif ident == "cuboid_mesh":
                V = cube_vertices(dim)
                with quiet():
                    m = magpy.magnet.TriangularMesh.from_ConvexHull(points=V, polarization=pol, position=np.array(P),
                                                                    orientation=R.from_quat(np.array(Q)))
                parts = [m]
            elif ident in ("cuboid_tetra5", "cuboid_tetra6"):
                V = cube_vertices(dim)
                T = TET5 if ident == "cuboid_tetra5" else TET6
                parts = [{"cls": "Tetrahedron", "vertices": V[list(t)].tolist(), "polarization": pol, "position": P, "orientation": Q}
                         for t in T]
                c = np.array([0.0, 0, 0])
                cuts = []
                for t in T:
                    for tri in itertools.combinations(t, 3):
                        a, b, cc = V[list(tri)]
                        n = np.cross(b - a, cc - a)
                        n /= np.linalg.norm(n)
                        cuts.append(lambda p, a=a, n=n: np.dot(p - a, n))
            elif ident == "cuboid_triangles":
                from vfw.oracles import meshes as M

                V, Fc = M.box(dim)
                parts = [{"cls": "Triangle", "vertices": V[f].tolist(), "polarization": pol, "position": P, "orientation": Q} for f in Fc]
                F = "H"  # open sheets carry the surface-charge field only
            obs = observers(rng, whole, nobs, cuts)
        elif ident in ("cylinder_full_segment", "cylinder_segments"):
            d, h = (10 ** rng.uniform(-0.4, 0.4, 2)).tolist()
            whole = {"cls": "Cylinder", "dimension": [d, h], "polarization": pol, "position": P, "orientation": Q}
            if ident == "cylinder_full_segment":
                p1 = float(rng.uniform(-540, 180))
                parts = [{"cls": "CylinderSegment", "dimension": [0.0, d / 2, h, p1, p1 + 360], "polarization": pol,
                          "position": P, "orientation": Q}]
                cuts = None
            else:
                # the first cut anywhere: parts then straddle 0, +-360 degrees in their own description
                parts, cuts = segment_partition(rng, 0.0, d / 2, h, float(rng.uniform(-540, 360)), 360.0, pol, P, Q)
            obs = observers(rng, whole, nobs, cuts)
        elif ident == "segment_subsegments":
            r1 = float(rng.choice([0.0, 10 ** rng.uniform(-0.7, -0.1)]))
            r2 = r1 + float(10 ** rng.uniform(-0.5, 0.2))
            h = float(10 ** rng.uniform(-0.4, 0.4))
            p1 = float(rng.uniform(-500, 340))
            dp = float(rng.uniform(30, 330))
            whole = {"cls": "CylinderSegment", "dimension": [r1, r2, h, p1, p1 + dp], "polarization": pol, "position": P, "orientation": Q}
            parts, cuts = segment_partition(rng, r1, r2, h, p1, dp, pol, P, Q)
            obs = observers(rng, whole, nobs, cuts)
        elif ident == "sphere_dipole":
            dia = float(10 ** rng.uniform(-0.5, 0.5))
            whole = {"cls": "Sphere", "diameter": dia, "polarization": pol, "position": P, "orientation": Q}
            vol = 4 / 3 * np.pi * (dia / 2) ** 3
            parts = [{"cls": "Dipole", "moment": (np.array(pol) * vol / mu0).tolist(), "position": P, "orientation": Q}]
            o = observers(rng, whole, 12)
            Ppath = np.array(P)
            keep = [p for p in o if np.min(np.linalg.norm(Ppath - p, axis=1)) > 0.55 * dia]  # outside at every path index
            obs = np.array(keep[:nobs]) if keep else np.zeros((0, 3))
        elif ident == "polygon_circle":
            return check_polygon(ctx, case, rng)
        elif ident == "mesh_conversions":
            return check_mesh_conversions(ctx, case, rng)
        if obs is None or len(obs) == 0:
            return
        a = fields([whole], obs, F)
        b = fields(parts, obs, F)
    except Exception as e:
        ctx.violation({"kind": "identity-raised", "identity": ident, "type": type(e).__name__}, case, exc_info(e))
        return
    ctx.count("identity:" + ident)
    ctx.count("parts", len(parts))
    ctx.evaluated(case, nontrivial=True, n=len(obs) * len(P))
    fl = tol.floor_abs(whole, F) + sum(tol.floor_abs(s, F) for s in parts if isinstance(s, dict))
    if not all(isinstance(s, dict) for s in parts):
        fl += tol.FLOOR_CLASS["TriangularMesh"] * tol.EPS * np.linalg.norm(pol) / (1 if F == "B" else tol.MU0)
    if not (np.all(np.isfinite(a)) and np.all(np.isfinite(b))):
        ctx.count("nonfinite_rows_skipped")
        return
    d = np.linalg.norm(a - b, axis=-1)
    # CylinderSegment loses digits like 1/d^2 next to its coincidence sets, also on their extension far from the
    # magnet (C01 finding cylseg-near-coincidence-precision: 1e-3 relative at 7e-6 sizes from the plane z = -h/2,
    # met by a thorough run of this check): same amplification of the class floor as C03/C12 use near a surface
    amp = np.ones(d.shape)
    segs = [x for x in [whole] + [q for q in parts if isinstance(q, dict)] if x["cls"] == "CylinderSegment"]
    if segs:
        for m in range(d.shape[0]):
            dm = np.min([G.cylseg_coincidence_dist(x, G.to_local(x, obs, m=m)) for x in segs], axis=0)
            amp[m] = np.maximum(1.0, (1e-3 / np.maximum(dm, 1e-300)) ** 2).reshape(amp[m].shape)
        if np.any(amp > 1):
            ctx.count("rows_near_cylseg_coincidence_set", int(np.sum(amp > 1)))
    allowed = 1e-6 * np.linalg.norm(a, axis=-1) + fl * amp
    if np.any(d > allowed):
        i = np.unravel_index(np.argmax(d / allowed), d.shape)
        ctx.violation({"kind": "whole!=parts", "identity": ident, "field": F}, case,
                      {"whole": a[i], "parts": b[i], "err": float(d[i]), "allowed": float(allowed[i]), "n_parts": len(parts),
                       "obs_local": G.to_local(whole, obs[i[-1]][None])[0]})


def segment_partition(rng, r1, r2, h, p1, dp, pol, P, Q):
    na, nr, nz = int(rng.integers(1, 4)), int(rng.integers(1, 3)), int(rng.integers(1, 3))
    ang = np.r_[p1, p1 + np.sort(rng.uniform(0.1, 0.9, na - 1)) * dp, p1 + dp]
    rad = np.r_[r1, r1 + np.sort(rng.uniform(0.15, 0.85, nr - 1)) * (r2 - r1), r2]
    zz = np.r_[-h / 2, -h / 2 + np.sort(rng.uniform(0.15, 0.85, nz - 1)) * h, h / 2]
    parts = []
    for i, j, k in itertools.product(range(na), range(nr), range(nz)):
        spec = {"cls": "CylinderSegment", "dimension": [float(rad[j]), float(rad[j + 1]), float(zz[k + 1] - zz[k]), float(ang[i]), float(ang[i + 1])],
                "polarization": pol}
        parts.append(place(spec, (0, 0, (zz[k] + zz[k + 1]) / 2), P, Q))
    cuts = [(lambda p, r=r: np.hypot(p[0], p[1]) - r) for r in rad[1:-1]] + [(lambda p, z=z: p[2] - z) for z in zz[1:-1]]
    for a in ang[1:-1] if dp < 360 else ang[:-1]:
        cuts.append(lambda p, a=a: np.hypot(p[0], p[1]) * np.sin(np.arctan2(p[1], p[0]) - np.deg2rad(a)))
    return parts, cuts


def check_polygon(ctx, case, rng):
    import magpylib as magpy

    r0 = float(10 ** rng.uniform(-0.5, 0.5))
    I = float(rng.normal() + 1.5)
    P, Q = case["P"], case["Q"]
    circ = {"cls": "Circle", "diameter": 2 * r0, "current": I, "position": P, "orientation": Q}
    # observers >= 0.2 radius from the wire
    # (at EVERY path index: the observers are fixed in the global frame while the loop moves along its path -
    #  the first version only looked at path index 0 and a thorough run met an observer 0.03 r0 from the wire at
    #  index 2, where even the 2048-gon is 1.3e-4 off)
    def wire_dist(glob):
        out = []
        for m in range(len(P)):
            q = G.to_local(circ, glob[None], m=m)[0]
            out.append(abs(np.hypot(np.hypot(q[0], q[1]) - r0, q[2])))
        return min(out)
    obs = []
    for _ in range(400):
        g = G.to_global(circ, (rng.normal(size=3) * r0 * 1.5)[None])[0]
        if wire_dist(g) > 0.2 * r0:
            obs.append(g)
        if len(obs) == 4:
            break
    if not obs:
        ctx.count("polygon_case_without_admissible_observer")
        return
    obs = np.array(obs)
    try:
        Hc = fields([circ], obs, "H")
        errs = {}
        for n in (16, 32, 64, 128, 256, 512, 1024, 2048):
            t = np.linspace(0, 2 * np.pi, n + 1)
            V = np.c_[r0 * np.cos(t), r0 * np.sin(t), np.zeros(n + 1)]
            V[-1] = V[0]
            poly = {"cls": "Polyline", "vertices": V.tolist(), "current": I, "position": P, "orientation": Q}
            Hp = fields([poly], obs, "H")
            # relative to the local field, but never less than 5 % of the centre field I/(2 r0): next to a zero
            # of |H| a purely relative error is meaningless
            errs[n] = np.linalg.norm(Hp - Hc, axis=-1) / np.maximum(np.linalg.norm(Hc, axis=-1), 0.05 * abs(I) / (2 * r0))
    except Exception as e:
        ctx.violation({"kind": "identity-raised", "identity": "polygon_circle", "type": type(e).__name__}, case, exc_info(e))
        return
    ctx.count("identity:polygon_circle")
    ctx.evaluated(case, nontrivial=True, n=8 * len(obs))
    ns = sorted(errs)
    for a, b in zip(ns[:-1], ns[1:]):
        m = errs[a] > 1e-9
        # asymptotic factor 0.25 once the segments are short compared with the distance to the wire
        # (>= 0.2 r0): n >= 512; before that only a decrease is demanded
        fac = 0.3 if a >= 512 else 0.75
        if np.any(errs[b][m] > fac * errs[a][m] + 1e-12):
            ctx.violation({"kind": "polygon-does-not-converge-to-circle", "n": b}, case,
                          {"err_n": errs[a].max(), "err_2n": errs[b].max()})
            return
    # inscribed polygon: err ~ (pi/n)^2 (r0/d)^2 / 3 <= 2e-5 at d = 0.2 r0; 1e-4 leaves a factor 5
    if np.any(errs[2048] > 1e-4):
        ctx.violation({"kind": "polygon-limit-differs-from-circle"}, case, {"err_2048": float(errs[2048].max())})


def check_mesh_conversions(ctx, case, rng):
    import magpylib as magpy

    V, Fc = objs.rand_mesh(rng)
    P, Q, pol = case["P"], case["Q"], case["pol"]
    size, thin = case.get("size", 1.0), case.get("thin", 1.0)
    if size != 1.0 or thin != 1.0:
        V = (np.array(V) * np.array([1.0, 1.0, thin]) * size).tolist()
        P = (np.array(P) * size).tolist()
        ctx.count("mesh_conversions_size:%g" % size)
    spec = {"cls": "TriangularMesh", "vertices": V, "faces": Fc, "polarization": pol, "position": P, "orientation": Q}
    obs = observers(rng, spec, 5)
    if len(obs) == 0:
        return
    try:
        with quiet(), np.errstate(all="ignore"):
            m = objs.build(spec)
            coll = m.to_TriangleCollection()
            kw = dict(polarization=pol, position=np.array(P), orientation=R.from_quat(np.array(Q)))
            m_tri = magpy.magnet.TriangularMesh.from_triangles(triangles=[magpy.misc.Triangle(vertices=v, polarization=pol) for v in m.mesh], **kw)
            m_tri2 = magpy.magnet.TriangularMesh.from_triangles(triangles=magpy.Collection(*[magpy.misc.Triangle(vertices=v) for v in m.mesh]), **kw)
            m_mesh = magpy.magnet.TriangularMesh.from_mesh(mesh=m.mesh, **kw)
            m_hull = magpy.magnet.TriangularMesh.from_ConvexHull(points=np.array(V), **kw)
            ref = {F: np.asarray(getattr(magpy, "get" + F)(m, obs, squeeze=False))[0] for F in "BH"}
            got = {"to_TriangleCollection": {"H": np.asarray(magpy.getH(coll, obs, squeeze=False))[0]}}
            made = {}
            for name, o in (("from_triangles(list)", m_tri), ("from_triangles(Collection)", m_tri2), ("from_mesh", m_mesh),
                            ("from_ConvexHull", m_hull)):
                made[name] = o
                got[name] = {F: np.asarray(getattr(magpy, "get" + F)(o, obs, squeeze=False))[0] for F in "BH"}
    except Exception as e:
        ctx.violation({"kind": "identity-raised", "identity": "mesh_conversions", "type": type(e).__name__}, case, exc_info(e))
        return
    ctx.count("identity:mesh_conversions")
    ctx.evaluated(case, nontrivial=True, n=5 * len(obs))
    for name, d in got.items():
        for F, val in d.items():
            fl = 2 * tol.floor_abs(spec, F)
            if val.shape != ref[F].shape:
                ctx.violation({"kind": "conversion-changes-path", "conversion": name}, case, {"shape": val.shape, "want": ref[F].shape})
                return
            dd = np.linalg.norm(val - ref[F], axis=-1)
            if np.any(dd > 1e-6 * np.linalg.norm(ref[F], axis=-1) + fl):
                extra = {}
                if name in made:
                    # mechanism flags (the harness's own explanation): the converted mesh came out inside out, and the
                    # body is thinner than 1e-4 of its extent perpendicular to one of its faces - the regime of the
                    # orientation-seed defect recorded for C16 (check point displaced by 1e-5 extents leaves the body)
                    from vfw.oracles import meshes as MZ
                    Vc, Fk = np.array(made[name].vertices), np.array(made[name].faces)
                    extra = {"inside_out": bool(MZ.signed_volume(Vc, Fk) < 0)}
                    if name == "from_ConvexHull":
                        # replay of the mechanism on the faces the library was handed (qhull's unoriented simplices,
                        # seed = first facet): the check point sits 1e-5 mesh extents from the seed facet's centre
                        # along the normal of the GIVEN winding; the defect is that this point, meant to be just
                        # inside or just outside, has already left the (convex) body on the far side
                        from scipy.spatial import ConvexHull
                        Vh = np.array(V, float)
                        S = ConvexHull(Vh).simplices
                        tri = Vh[S[0]]
                        nh = np.cross(tri[0] - tri[1], tri[1] - tri[2])
                        nh /= np.linalg.norm(nh)
                        ext = float(np.ptp(Vh[S].reshape(-1, 3), axis=0).max())
                        c0 = tri.mean(axis=0)
                        inward = np.dot(nh, Vh.mean(axis=0) - c0) > 0
                        through = 0.0
                        if inward:   # thickness of the body under the seed facet's centre along nh
                            ts = []
                            for f in S[1:]:
                                a, b, c_ = Vh[f]
                                nf = np.cross(b - a, c_ - a)
                                den = float(np.dot(nf, nh))
                                if abs(den) > 0:
                                    t = float(np.dot(nf, a - c0)) / den
                                    if t > 0:
                                        ts.append(t)
                            through = min(ts) if ts else np.inf
                        extra["seed_check_point_beyond_body"] = bool(inward and through <= 1.0e-5 * ext * (1 + 1e-6))
                ctx.violation({"kind": "conversion-changes-field", "conversion": name, "field": F, **extra}, case,
                              {"err": float(dd.max()), "ref": ref[F].ravel()[:3], "got": val.ravel()[:3]})
                return


def run_shard(ctx):
    while not ctx.expired():
        check_case(ctx, gen_case(ctx.rng))


def replay(ctx, case):
    check_case(ctx, case)
