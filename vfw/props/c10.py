"""C10 - operations on a Collection keep every child's pose relative to it.

Invariant monitor on live trees: before an operation on collection C the pose of every
descendant d relative to C is recorded per path index, rel_i = (R_C[i]^-1 (p_d[i]-p_C[i]),
R_C[i]^-1 R_d[i]); after the operation new index j is compared with the old index given by the
documented edge-padding / end-slicing map (from the C09 PathModel applied to C's own path).
Objects outside C's subtree must be digest-identical.  An operation on a leaf must change only
that leaf.  C.getB() of a collection holding sources and sensors must be invariant.
"""
from __future__ import annotations

import numpy as np
from scipy.spatial.transform import Rotation as R

from vfw import objs, digest as D, tol
from vfw.oracles.pathmodel import PathModel
from vfw.props import c09
from vfw.util import quiet, exc_info

LEVEL = "exploration"
RULE = ("random trees (depth <= 3, 2-8 leaves, sources and sensors, all members sharing the collection's path "
        "length 1-4) x histories of 1-8 operations (move / rotate / rotate_from_* / position= / orientation= / "
        "reset_path, all anchor kinds, start across both ends) applied to any collection or leaf; non-trivial = "
        "operated collection has nested descendants or the operation padded/sliced the path or used an anchor; "
        "distinct by sha1 of (tree spec, history)")
ASSUMPTIONS = ["index correspondence old<->new path entries = documented edge-padding / end-slicing (C09 model)",
               "members share the collection's path length, as the property's quantifier restricts; an operation "
               "that changes a single member's length ends the deciding part of the history"]


def plan(tier):
    return {"shards": 8 if tier == "quick" else 16, "budget_s": 25 if tier == "quick" else 300,
            "required_counters": ["collection_ops", "leaf_ops", "field_invariance_checks", "nested_ops", "setter_ops"]}


def rand_tree(rng, depth, L, counter):
    n = int(rng.integers(1, 4))
    kids = []
    for _ in range(n):
        if depth > 0 and rng.random() < 0.4:
            kids.append(rand_tree(rng, depth - 1, L, counter))
        elif rng.random() < 0.3:
            kids.append(objs.rand_sensor(rng, path_len=L, pixel=None if rng.random() < 0.5 else [[0, 0, 0], [0.1, 0, 0]]))
            kids[-1]["handedness"] = "right"
        else:
            kids.append(objs.rand_source(rng, str(rng.choice(["Cuboid", "Sphere", "Dipole", "Circle", "Polyline"])), path_len=L))
    pos, ori = objs.rand_path(rng, L, 1.0)
    counter[0] += 1
    return {"cls": "Collection", "children": kids, "position": pos, "orientation": ori}


def index_tree(obj, path=()):
    """flat list of (path tuple, object)"""
    out = [(path, obj)]
    for i, c in enumerate(getattr(obj, "_children", []) or []):
        out += index_tree(c, path + (i,))
    return out


def rel_pose(C, d):
    RC = C._orientation
    p = RC.inv().apply(d._position - C._position)
    q = (RC.inv() * d._orientation).as_quat()
    return p, q


def index_map(op, L_old, L_new, pads):
    b, e = pads
    k = op["op"]
    if k in ("move", "rot"):
        return [min(max(j - b, 0), L_old - 1) for j in range(L_new)]
    if k in ("set_position", "set_orientation"):
        if L_new >= L_old:
            return [min(j, L_old - 1) for j in range(L_new)]
        return [j + (L_old - L_new) for j in range(L_new)]
    if k == "reset":
        return [L_old - 1]
    raise ValueError(k)


def gen_case(rng):
    L = int(rng.integers(1, 5))
    cnt = [0]
    tree = rand_tree(rng, int(rng.integers(1, 4)), L, cnt)
    hist = []
    for _ in range(int(rng.integers(1, 9))):
        op = c09.gen_op(rng, L, kind=str(rng.choice(["move", "rot", "set_position", "set_orientation", "reset"],
                                                     p=[0.3, 0.4, 0.12, 0.12, 0.06])))
        hist.append({"target": rng.random(), "leaf": bool(rng.random() < 0.25), "op": op})
        if rng.random() < 0.12:
            # a member takes over the position path of another member (`a.position = b.position`, the array the
            # public property returns), then that other member is moved: the two must stay independent objects
            hist.append({"target": rng.random(), "leaf": bool(rng.random() < 0.6), "op": {"op": "adopt_position", "other": rng.random()}})
            hist.append({"target": 0.0, "leaf": False, "target_ref": "last_other",
                         "op": c09.gen_op(rng, L, kind=str(rng.choice(["move", "rot"])))})
    return {"tree": tree, "L": L, "history": hist}


def field_of(root):
    """root.getB() when the tree holds both sources and sensors, else None"""
    import magpylib as magpy

    if root.sources_all and root.sensors_all:
        with quiet():
            return np.asarray(magpy.getB(root.sources_all, root.sensors_all, squeeze=False, pixel_agg="mean", sumup=True))
    return None


def check_case(ctx, case):
    with quiet():
        root = objs.build(case["tree"])
    last_other = None
    for step, h in enumerate(case["history"]):
        nodes = index_tree(root)
        colls = [(p, o) for p, o in nodes if hasattr(o, "_children")]
        leaves = [(p, o) for p, o in nodes if not hasattr(o, "_children")]
        pool = leaves if (h["leaf"] and leaves) else colls
        tpath, target = pool[int(h["target"] * len(pool)) % len(pool)]
        op = h["op"]
        if h.get("target_ref") == "last_other":
            if last_other is None:
                continue
            target = last_other
        live = None
        if op["op"] == "adopt_position":
            others = [o for _, o in nodes if o is not target]
            if not others:
                continue
            last_other = others[int(op["other"] * len(others)) % len(others)]
            if len(last_other._position) != len(target._position):
                last_other = None
                continue
            live = last_other.position
            op = {"op": "set_position", "value": np.array(live, float).reshape(-1, 3).tolist()}
            ctx.count("adopted_position_paths" + ("_len>1" if len(target._position) > 1 else "_len1"))
        is_coll = hasattr(target, "_children")
        sub = {id(o) for _, o in index_tree(target)}
        if len({len(o._position) for _, o in index_tree(target)}) != 1:
            ctx.count("history_ended:members_no_longer_share_path_length")
            return  # the quantifier's precondition no longer holds for this target
        outside_before = {id(o): D.digest(o) for _, o in nodes if id(o) not in sub}
        L_old = len(target._position)
        rel_before = {id(d): rel_pose(target, d) for _, d in index_tree(target)[1:]} if is_coll else {}
        B0 = field_of(root)
        model = PathModel(target._position.copy(), target._orientation.as_quat().copy())
        try:
            decidable, b, e = c09.apply_model(model, op)
        except Exception:
            decidable, b, e = False, 0, 0
        try:
            with quiet():
                if live is not None:
                    target.position = live
                else:
                    c09.apply_lib(target, op)
        except Exception as ex:
            ctx.violation({"kind": "valid-op-raised", "op": op["op"], "type": type(ex).__name__},
                          {**case, "history": case["history"][: step + 1]}, exc_info(ex))
            return
        sub_case = {**case, "history": case["history"][: step + 1]}
        # 1. nothing outside the operated subtree changed
        for _, o in index_tree(root):
            if id(o) in outside_before and D.digest(o) != outside_before[id(o)]:
                ctx.violation({"kind": "outside-subtree-changed", "op": op["op"], "target": "coll" if is_coll else "leaf"},
                              sub_case, {"diff": D.diff(outside_before[id(o)], D.digest(o)), "obj": type(o).__name__})
                return
        ctx.count("collection_ops" if is_coll else "leaf_ops")
        if op["op"] in ("set_position", "set_orientation", "reset"):
            ctx.count("setter_ops")
        L_new = len(target._position)
        if not is_coll:
            ctx.evaluated({"case": sub_case}, nontrivial=False)
            continue
        if not decidable:
            ctx.count("ops_not_decidable")
            # lengths must still agree
            if any(len(d._position) != L_new for _, d in index_tree(target)[1:]):
                return
            continue
        nested = any(hasattr(d, "_children") for _, d in index_tree(target)[1:])
        if nested:
            ctx.count("nested_ops")
        imap = index_map(op, L_old, L_new, (b, e))
        nontriv = nested or bool(b or e) or op.get("anchor") is not None or L_new != L_old
        worst = 0.0
        for _, d in index_tree(target)[1:]:
            if len(d._position) != L_new:
                ctx.violation({"kind": "child-path-length", "op": op["op"]}, sub_case,
                              {"child": type(d).__name__, "len": len(d._position), "collection_len": L_new})
                return
            p1, q1 = rel_pose(target, d)
            p0, q0 = rel_before[id(d)]
            scale = 1 + np.max(np.abs(p0)) + np.max(np.abs(target._position))
            dp = np.max(np.abs(p1 - p0[imap]))
            dq = np.max((R.from_quat(q1) * R.from_quat(q0[imap]).inv()).magnitude())
            worst = max(worst, dp / scale, dq)
            if dp > 1e-9 * scale or dq > 1e-9:
                j = int(np.argmax(np.abs(p1 - p0[imap]).max(axis=1)))
                ctx.violation({"kind": "relative-pose-changed", "op": op["op"], "form": op.get("form"),
                               "anchor": op.get("anchor_kind"), "what": "position" if dp > 1e-9 * scale else "orientation"},
                              sub_case, {"child": type(d).__name__, "index": j, "old_index": imap[j], "dp": dp, "dq": dq,
                                         "rel_before": p0[imap[j]], "rel_after": p1[j]})
                return
        ctx.evaluated({"case": sub_case}, nontrivial=bool(nontriv), n=max(1, len(rel_before)))
        # 3. field seen by own sensors invariant (only when the operated collection is the root:
        #    then every source and sensor moved together)
        if B0 is not None and target is root:
            B1 = field_of(root)
            ctx.count("field_invariance_checks")
            M0 = B0.shape[1]
            # B0 path axis may be shorter than L_old if all share L_old: it equals L_old
            want = B0[:, [min(i, M0 - 1) for i in imap]]
            fl = tol.floor_abs(case["tree"], "B")
            ok, w = tol.close_a(B1, want, fl, rtol=1e-7)
            if not ok:
                ctx.violation({"kind": "own-sensor-field-changed", "op": op["op"]}, sub_case,
                              {"ratio": w, "B_before": want.ravel()[:3], "B_after": B1.ravel()[:3]})
                return


def run_shard(ctx):
    while not ctx.expired():
        check_case(ctx, gen_case(ctx.rng))


def replay(ctx, case):
    check_case(ctx, case)
