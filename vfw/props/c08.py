"""C08 - field computation never changes objects or inputs, even when it fails.

State monitor: deep digests (vfw.digest) of every involved object (sources, sensors, collections
and all descendants, styles) and byte copies of every caller array, taken before the call and
compared after it returned OR raised; caller arrays are additionally made read-only (write
sanitizer).  A second identical call must return the same values.
Stage A: fault matrix reachable through the public API.
Stage B: source-free failpoints (sys.monitoring LINE callbacks raising InjectedFault) at every
call-bearing line of getBH_level2 / get_src_dict / tile_group_property / getBH_level1, k-th hit.
"""
from __future__ import annotations

import numpy as np
from scipy.spatial.transform import Rotation as R

from vfw import objs, digest as D, probes
from vfw.util import quiet, exc_info

LEVEL = "fault_enumeration"
RULE = ("scenario = (sources incl. CustomSource/collections, sensors, which objects need path tiling) x fault kind "
        "(stage A: public-API faults; stage B: injected fault at (function, line, k-th hit)); non-trivial = at "
        "least one object had to be path-tiled and the fault fired after tiling began (or, for no-fault controls, "
        "tiling happened); distinct by sha1 of (scenario, fault)")
ASSUMPTIONS = ["digest covers position/orientation paths, geometry, excitation, pixel, handedness, parent/children, "
               "typed child lists, mesh status flags and style values",
               "failpoints only at lines containing a call (any call can raise MemoryError/KeyboardInterrupt)"]

FAULTS_A = ["none", "missing_dimension", "missing_excitation", "custom_raises", "custom_none", "custom_shape",
            "custom_list", "custom_unsupported_field", "custom_no_func", "pixel_agg_badname", "pixel_agg_ndim",
            "pixel_agg_size", "pixel_agg_isscalar", "pixel_shapes_differ", "bad_output", "bad_in_out",
            "kwargs_in_oo", "empty_sources", "empty_observers", "bad_observer_obj", "bad_source_obj",
            "dataframe_ok", "functional_readonly", "sumup_squeeze", "core_readonly", "single_point"]


def plan(tier):
    return {"shards": 8 if tier == "quick" else 16, "budget_s": 25 if tier == "quick" else 300,
            "required_counters": ["stageA_cases", "stageB_injections", "raised_after_tiling", "tiled_objects"]
            + ["faultA:" + f for f in FAULTS_A]}


# --------------------------------------------------------------------------------- scenario
def make_custom(mode, fire_at):
    """CustomSource field_func with a call counter; misbehaves on call number `fire_at`
    (the two validation calls at assignment count as 1 and 2)"""
    state = {"n": 0}

    def field_func(field, observers):
        state["n"] += 1
        if mode == "custom_unsupported_field" and field in ("H", "J", "M"):
            return None
        if state["n"] == fire_at:
            if mode == "custom_raises":
                raise ZeroDivisionError("user field_func failed")
            if mode == "custom_none":
                return None
            if mode == "custom_shape":
                return np.zeros((len(observers) + 1, 3))
            if mode == "custom_list":
                return [[0.0, 0.0, 1.0]] * len(observers)
        return np.array(observers, float) * 0.1 + (1.0 if field == "B" else 2.0)

    return field_func, state


CORE_FUNCS = ["current_circle_Hfield", "current_polyline_Hfield", "dipole_Hfield", "magnet_cuboid_Bfield",
              "magnet_cylinder_axial_Bfield", "magnet_cylinder_diametral_Hfield", "magnet_cylinder_segment_Hfield",
              "magnet_sphere_Bfield", "triangle_Bfield"]


def core_args(r):
    """(name, [float64 arrays]) - valid vectorised input of one magpylib.core function, n rows, observers in all
    octants (the implementations fold observers into one octant / quadrant internally)"""
    name = str(r.choice(CORE_FUNCS))
    n = int(r.integers(1, 6))
    obs = r.normal(size=(n, 3)) * 2
    pos = lambda *sh: 10.0 ** r.uniform(-0.5, 0.5, size=(n,) + sh)   # noqa: E731
    vec = lambda: r.normal(size=(n, 3))   # noqa: E731
    if name == "current_circle_Hfield":
        a = [pos(), np.abs(r.normal(size=n)) * 2, r.normal(size=n), r.normal(size=n)]
    elif name == "current_polyline_Hfield":
        a = [obs, vec(), vec(), r.normal(size=n)]
    elif name == "dipole_Hfield":
        a = [obs, vec()]
    elif name == "magnet_cuboid_Bfield":
        a = [obs, pos(3), vec()]
    elif name == "magnet_cylinder_axial_Bfield":
        a = [pos(), np.abs(r.normal(size=n)) * 2, r.normal(size=n)]
    elif name == "magnet_cylinder_diametral_Hfield":
        a = [pos(), np.abs(r.normal(size=n)) * 2, r.normal(size=n), r.uniform(-np.pi, np.pi, size=n)]
    elif name == "magnet_cylinder_segment_Hfield":
        r1 = r.uniform(0.1, 1, size=n)
        p1 = r.uniform(-np.pi, np.pi, size=n)
        z1 = r.normal(size=n)
        dim = np.c_[r1, r1 + r.uniform(0.2, 1, size=n), p1, p1 + r.uniform(0.3, 5, size=n), z1, z1 + r.uniform(0.2, 2, size=n)]
        o = np.c_[r.uniform(0.05, 3, size=n), r.uniform(-np.pi, np.pi, size=n), r.normal(size=n) * 2]
        mag = np.c_[r.uniform(1e4, 1e6, size=n), r.uniform(-np.pi, np.pi, size=n), r.uniform(0, np.pi, size=n)]
        a = [o, dim, mag]
    elif name == "magnet_sphere_Bfield":
        a = [obs, pos(), vec()]
    else:
        a = [obs, r.normal(size=(n, 3, 3)), vec()]
    return name, [np.array(x, dtype=float) for x in a]


def gen_scenario(rng, fault):
    """specs only (JSON-able)"""
    L = int(rng.choice([2, 3, 5]))
    tiling = str(rng.choice(["src_short", "sens_short", "coll_member", "none", "both"]))
    nsrc = int(rng.integers(1, 4))
    srcs = []
    for i in range(nsrc):
        Ls = 1 if tiling in ("src_short", "both") and i == 0 else L
        srcs.append(objs.rand_source(rng, path_len=Ls))
    if tiling == "coll_member" or rng.random() < 0.3:
        kids = [objs.rand_source(rng, path_len=1 if tiling == "coll_member" else L) for _ in range(2)]
        kids.append(objs.rand_sensor(rng, path_len=L, pixel=None))
        pos, ori = objs.rand_path(rng, L, 0.3)
        srcs.append({"cls": "Collection", "children": kids, "position": pos, "orientation": ori,
                     "style": {"label": "col"}})
    nsens = int(rng.integers(1, 3))
    pix = objs.rand_sensor(rng)["pixel"]
    sens = []
    for i in range(nsens):
        Ls = 1 if tiling in ("sens_short", "both") and i == 0 else L
        sens.append(objs.rand_sensor(rng, path_len=Ls, pixel=pix))
    if tiling == "none":
        for s in srcs + sens:
            P, Q = objs.rand_path(rng, L)
            s["position"], s["orientation"] = P, Q
            for c in s.get("children", []):
                c["position"], c["orientation"] = objs.rand_path(rng, L)
    for x in [y for s0 in srcs for y in objs.leaves(s0)]:
        if x["cls"] == "TriangularMesh" and rng.random() < 0.5:
            # a mesh nobody has checked yet: the status attributes are None and must stay None
            for k in ("check_open", "check_disconnected", "check_selfintersecting", "reorient_faces"):
                x[k] = "skip"
    if fault == "single_point":
        # the smallest possible call: one source, path length 1, one observer point
        cls = str(rng.choice(["Tetrahedron", "Tetrahedron", "TriangularMesh", "Triangle", "Cuboid", "Polyline", "CylinderSegment"]))
        one = objs.rand_source(rng, cls, path_len=1)
        if cls == "TriangularMesh" and rng.random() < 0.5:
            for k in ("check_open", "check_disconnected", "check_selfintersecting", "reorient_faces"):
                one[k] = "skip"
        srcs, sens, tiling, L = [one], [], "none", 1
    return {"sources": srcs, "sensors": sens, "tiling": tiling, "fault": fault, "L": L,
            "field": str(rng.choice(list("BHJM"))), "fire_at": int(rng.integers(1, 5)),
            "style_init": bool(rng.random() < 0.5), "salt": int(rng.integers(2**31))}


class Setup:
    """live objects + the call to perform"""

    def __init__(self, sc):
        import magpylib as magpy

        self.sc = sc
        self.objects = []
        self.sources = [objs.build(s, self.objects) for s in sc["sources"]]
        self.sensors = [objs.build(s, self.objects) for s in sc["sensors"]]
        self.arrays = []
        self.kw = dict(squeeze=False)
        self.custom_state = None
        fault = sc["fault"]
        F = sc["field"]
        if sc["style_init"]:
            for o in self.objects[::2]:
                o.style.label = "x"
        if fault.startswith("custom"):
            mode = fault
            if fault == "custom_no_func":
                cs = magpy.misc.CustomSource(position=np.zeros((1, 3)))
            else:
                ff, self.custom_state = make_custom(mode, 2 + sc["fire_at"] if fault != "custom_unsupported_field" else -1)
                cs = magpy.misc.CustomSource(field_func=ff, position=np.zeros((1, 3)))
            self.sources.insert(int(len(self.sources) > 1), cs)
            self.objects.append(cs)
            if fault == "custom_unsupported_field" and F == "B":
                sc["field"] = F = "H"
        if fault == "missing_dimension":
            o = self.sources[0]
            for a in ("dimension", "diameter", "vertices"):
                if hasattr(o, "_" + a) and not type(o).__name__ == "TriangularMesh":
                    setattr(o, "_" + a, None)
        if fault == "missing_excitation":
            o = self.sources[-1] if not hasattr(self.sources[-1], "_children") else self.sources[0]
            for a in ("polarization", "current", "moment"):
                if hasattr(o, "_" + a):
                    setattr(o, "_" + a, None)
            if hasattr(o, "_magnetization"):
                o._magnetization = None
        self.observers = list(self.sensors)
        if fault == "pixel_agg_badname":
            self.kw["pixel_agg"] = "notanumpyname"
        elif fault == "pixel_agg_ndim":
            self.kw["pixel_agg"] = "ndim"
        elif fault == "pixel_agg_size":
            self.kw["pixel_agg"] = "size"
        elif fault == "pixel_agg_isscalar":
            self.kw["pixel_agg"] = "isscalar"
        elif fault == "pixel_shapes_differ":
            s = magpy.Sensor(pixel=np.zeros((2, 5, 3)))
            self.observers.append(s)
            self.objects.append(s)
        elif fault == "bad_output":
            self.kw["output"] = "xml"
        elif fault == "bad_in_out":
            self.kw["in_out"] = "sideways"
        elif fault == "kwargs_in_oo":
            self.kw["dimension"] = (1, 2, 3)
        elif fault == "empty_sources":
            self.sources = []
        elif fault == "empty_observers":
            self.observers = []
        elif fault == "bad_observer_obj":
            self.observers.append("sensor?")
        elif fault == "bad_source_obj":
            self.sources.append(self.sensors[0])
        elif fault == "dataframe_ok":
            self.kw = {"output": "dataframe"}
        elif fault == "sumup_squeeze":
            self.kw = {"sumup": True, "squeeze": True, "pixel_agg": "mean"}
        elif fault == "single_point":
            r = np.random.default_rng(sc.get("salt", 0))
            self.observers = r.normal(size=3) * 3 if r.random() < 0.5 else r.normal(size=(1, 3)) * 3
            self.kw = dict(squeeze=bool(r.random() < 0.5))
            if r.random() < 0.3:
                self.sources = self.sources[0]    # the bare object instead of a list
        if fault in ("none", "sumup_squeeze") and np.random.default_rng(sc["fire_at"]).random() < 0.5:
            arr = np.random.default_rng(sc["fire_at"]).normal(size=(3, 3)) * 4
            arr.flags.writeable = False
            self.arrays.append(arr)
            self.observers = arr if np.random.default_rng(sc["L"]).random() < 0.5 else self.observers + [arr]
            if isinstance(self.observers, list):
                self.kw["pixel_agg"] = "mean"
        if fault == "functional_readonly" and sc["fire_at"] >= 3:
            # every class of the functional interface with per-instance (n,..) float64 arrays
            from vfw.props import c07

            r = np.random.default_rng(sc.get("salt", sc["L"] * 7 + sc["fire_at"]))
            cls = str(r.choice(list(c07.PARAMS)))
            inst = []
            base = objs.rand_source(r, cls)
            for _ in range(3):
                x = objs.rand_source(r, cls)
                if cls == "Polyline":
                    x["vertices"] = r.normal(size=(len(base["vertices"]), 3)).tolist()
                if cls == "TriangularMesh":
                    x["vertices"], x["faces"] = base["vertices"], base["faces"]
                inst.append(x)
            kwf = {k: np.array(v, dtype=float) for k, v in c07.func_kwargs(cls, inst, False).items()}
            kwf["position"] = np.array([x["position"][0] for x in inst], dtype=float)
            if "polarization" in kwf and "salt" in sc and r.random() < 0.5:   # the other documented excitation input
                kwf["magnetization"] = kwf.pop("polarization") / magpy.mu_0
            obs_f = r.normal(size=(3, 3)) * 3
            self.func_call = (cls, obs_f, kwf)
            self.arrays = [obs_f] + list(kwf.values())
            if sc["fire_at"] % 2:
                for a in self.arrays:
                    a.flags.writeable = False
        elif fault == "core_readonly":
            self.core_call = core_args(np.random.default_rng(sc.get("salt", 0)))
            self.arrays = list(self.core_call[1])
            if sc["fire_at"] % 2:
                for a in self.arrays:
                    a.flags.writeable = False
        elif fault == "functional_readonly":
            v = np.random.default_rng(sc["L"]).normal(size=(4, 4, 3))
            v[:, 3] += 2  # non-degenerate; random chirality so check_chirality has work to do
            o = np.random.default_rng(1).normal(size=(4, 3)) * 3
            p = np.ones((4, 3))
            if sc["fire_at"] % 2:  # write sanitizer variant; otherwise plain byte comparison of writeable arrays
                for a in (v, o, p):
                    a.flags.writeable = False
            self.arrays = [v, o, p]
        self.F = F

    def call(self):
        import magpylib as magpy

        if self.sc["fault"] == "core_readonly":
            name, args = self.core_call
            return getattr(magpy.core, name)(*args)
        if self.sc["fault"] == "functional_readonly" and getattr(self, "func_call", None):
            cls, o, kwf = self.func_call
            return getattr(magpy, "get" + ("B" if cls in ("Circle", "Polyline", "Dipole") and self.F in "JM" else self.F))(cls, o, **kwf)
        if self.sc["fault"] == "functional_readonly":
            v, o, p = self.arrays
            return getattr(magpy, "get" + self.F)("Tetrahedron", o, vertices=v, polarization=p)
        return getattr(magpy, "get" + self.F)(self.sources, self.observers, **self.kw)

    def snapshot(self):
        return (D.digest_many(self.objects), tuple(a.tobytes() for a in self.arrays), D.digest_defaults())


def tiled_count(sc):
    lens = [objs.path_len(l) for s in sc["sources"] for l in objs.leaves(s) if l["cls"] != "Sensor"]
    lens += [objs.path_len(s) for s in sc["sensors"]]
    m = max(lens)
    return sum(1 for x in lens if x != m) if m > 1 else 0


def same_result(a, b):
    try:
        import pandas as pd

        if isinstance(a, pd.DataFrame):
            a, b = a.select_dtypes("number").to_numpy(), b.select_dtypes("number").to_numpy()
    except ImportError:
        pass
    a, b = np.asarray(a, float), np.asarray(b, float)
    if a.shape != b.shape:
        return False
    # rounding-level equality: numpy reductions are alignment dependent (observed 2e-16 between identical calls)
    return bool(np.all(np.abs(a - b) <= 1e-9 * (np.abs(a) + np.abs(b)) + 1e-300) or np.array_equal(a, b, equal_nan=True))


def run_one(ctx, sc, inject=None):
    """inject = None (stage A) or (func, line, k) for a failpoint"""
    try:
        with quiet():
            st = Setup(sc)
    except Exception as e:  # scenario could not even be built: machinery problem
        ctx.inconclusive_case("setup failed: " + repr(e)[:200], {"fault": sc["fault"]})
        return None
    before = st.snapshot()
    raised, res = None, None
    hits = {"n": 0}
    pr = ctx.safety
    if inject is not None:
        func, pattern_line, k = inject

        def cb(fr):
            hits["n"] += 1
            if hits["n"] == k:
                raise probes.InjectedFault(f"{func.__name__}:{pattern_line}#{k}")

        code = func.__code__
        pr.line_cbs.setdefault((code, pattern_line), []).append(cb)
        pr.codes.add(code)
        pr._apply(code)
    try:
        with quiet():
            res = st.call()
    except BaseException as e:
        raised = e
    finally:
        if inject is not None:
            pr.line_cbs[(code, pattern_line)].remove(cb)
            if not pr.line_cbs[(code, pattern_line)]:
                del pr.line_cbs[(code, pattern_line)]
            if not any(c is code for c, _ in pr.line_cbs):
                pr.codes.discard(code)
            pr._apply(code)
    after = st.snapshot()
    case = {"scenario": sc, "inject": None if inject is None else [inject[0].__name__, inject[1], inject[2]]}
    if sc["fault"] in ("functional_readonly", "core_readonly") and inject is None and raised is not None:
        # every input of this scenario is valid: the only way to fail is an attempted write into the caller's
        # (read-only) arrays - the write sanitizer turned the mutation into an exception
        ctx.evaluated(case, nontrivial=True)
        ctx.violation({"stage": "A", "fault": sc["fault"], "kind": "write-into-caller-array", "raised": type(raised).__name__},
                      case, exc_info(raised))
        return st, raised, True
    ntile = tiled_count(sc)
    fired = inject is None or hits["n"] >= (inject[2] if inject else 0)
    if inject is not None and not isinstance(raised, probes.InjectedFault):
        fired = False
    nontrivial = (ntile > 0 and (raised is not None or sc["fault"] in ("none", "dataframe_ok", "sumup_squeeze"))) or sc["fault"] == "single_point"
    ctx.evaluated(case, nontrivial=bool(nontrivial))
    if ntile:
        ctx.count("tiled_objects", ntile)
    if raised is not None:
        ctx.count("raised:" + type(raised).__name__)
    key = {"stage": "A" if inject is None else "B", "fault": sc["fault"],
           "raised": type(raised).__name__ if raised is not None else None}
    for name, b, a in (("objects", before[0], after[0]), ("arrays", before[1], after[1]), ("defaults", before[2], after[2])):
        if a != b:
            what = D.diff(b, a) if name != "arrays" else "caller array bytes changed"
            fld = (what or "").split("/")[2].split(":")[0] if name == "objects" and what and what.count("/") >= 2 else name
            ctx.violation({**key, "kind": "state-changed", "what": name, "field": fld}, case,
                          {"diff": what, "raised": exc_info(raised) if raised is not None else None})
            return st, raised, fired
    if raised is None and not sc["fault"].startswith("custom"):
        try:
            with quiet():
                res2 = st.call()
            if not same_result(res, res2):
                ctx.violation({**key, "kind": "second-call-differs"}, case, {})
        except Exception as e:
            ctx.violation({**key, "kind": "second-call-raises"}, case, exc_info(e))
    else:
        if ntile and inject is None:
            ctx.count("raised_with_tiling_needed")
    return st, raised, fired


def stage_a(ctx):
    fault = FAULTS_A[int(ctx.rng.integers(0, len(FAULTS_A)))]
    sc = gen_scenario(ctx.rng, fault)
    out = run_one(ctx, sc)
    ctx.count("stageA_cases")
    ctx.count("faultA:" + fault)
    if out and out[1] is not None and tiled_count(sc) and fault in (
            "custom_raises", "custom_none", "custom_shape", "custom_list", "custom_unsupported_field",
            "custom_no_func", "pixel_agg_ndim", "pixel_agg_size", "pixel_agg_isscalar"):
        ctx.count("raised_after_tiling")


def crash_points():
    from magpylib._src.fields import field_wrap_BH as W

    pts = []
    for f in (W.getBH_level2, W.get_src_dict, W.tile_group_property, W.getBH_level1):
        for line, text in probes.call_lines(f).items():
            pts.append((f, line, text))
    return pts


def stage_b(ctx, pts, exhaustive_idx=None):
    """one injected fault; k-th hit up to the hit count of a clean run"""
    if exhaustive_idx is None:
        f, line, text = pts[int(ctx.rng.integers(0, len(pts)))]
    else:
        f, line, text = pts[exhaustive_idx]
    sc = gen_scenario(ctx.rng, "none")
    sc["tiling"] = sc["tiling"]
    k = int(ctx.rng.integers(1, 4))
    out = run_one(ctx, sc, inject=(f, line, k))
    ctx.count("stageB_injections")
    if out and isinstance(out[1], probes.InjectedFault):
        ctx.count("stageB_fired")
        ctx.count("crashpoint:" + f.__name__)
        if tiled_count(sc):
            ctx.count("raised_after_tiling")
    return out


def suite_under_monitors(ctx):
    """thorough tier, one shard: the repository's own test-suite with vfw.pytest_plugin on
    (digest wrapper around getBH_level2, path post-conditions, forest check after every test,
    defaults digest around show)"""
    import json
    import os
    import subprocess
    import sys
    import tempfile

    from vfw.runner import REPO, VERIF

    with tempfile.TemporaryDirectory(dir="/var/tmp") as td:
        out = os.path.join(td, "plugin.json")
        env = {**os.environ, "VFW_PLUGIN_OUT": out, "MPLBACKEND": "Agg",
               "PYTHONPATH": os.pathsep.join([REPO, VERIF, os.path.join(VERIF, ".deps")])}
        try:
            subprocess.run([sys.executable, "-m", "pytest", "-q", "-p", "no:cacheprovider", "-p", "vfw.pytest_plugin",
                            "--timeout=900", "tests"], cwd=REPO, env=env, capture_output=True, text=True, timeout=1500)
            d = json.load(open(out))
        except Exception as e:
            ctx.inconclusive_case("suite under monitors did not complete: " + repr(e)[:200], None)
            return
    for k, v in d["evals"].items():
        ctx.count("suite:" + k, v)
    if d.get("install_error"):
        ctx.inconclusive_case("plugin install failed: " + d["install_error"][:200], None)
    for v in d["violations"]:
        ctx.violation({"stage": "suite", "kind": v["kind"]}, {"test": v["where"]}, v)
    ctx.evaluated({"suite_under_monitors": d["evals"]}, nontrivial=True, n=int(d["evals"].get("getBH_level2:digest_checks", 0)))


def run_shard(ctx):
    if ctx.tier == "thorough" and ctx.shard == 0:
        suite_under_monitors(ctx)
    pts = crash_points()
    ctx.count("crash_points_total", len(pts) if ctx.shard == 0 else 0)
    i = ctx.shard
    # exhaustive sweep over crash points (each shard takes a slice), then random
    while not ctx.expired():
        if i < len(pts) * (3 if ctx.tier == "quick" else 20):
            stage_b(ctx, pts, exhaustive_idx=i % len(pts))
            i += ctx.nshards
        else:
            stage_b(ctx, pts)
        stage_a(ctx)
        stage_a(ctx)


def replay(ctx, case):
    sc = case["scenario"]
    if case.get("inject"):
        from magpylib._src.fields import field_wrap_BH as W

        f = getattr(W, case["inject"][0])
        run_one(ctx, sc, inject=(f, case["inject"][1], case["inject"][2]))
    else:
        run_one(ctx, sc)
