"""C04 - a Sensor reports the global field at its pixels, in its own frame.

Oracle: for sensor k at path index m, P = R_k[m].pixel + p_k[m];
ref = R_k[m]^-1 . getX(source frozen (rebuilt from spec) at index m, P); x negated for
left-handed sensors; pixel_agg = the named numpy reduction over the pixel axes of ref.
Probe: which of the three back-rotation code paths of getBH_level2 the library took.
"""
from __future__ import annotations

import numpy as np
from scipy.spatial.transform import Rotation as R

from vfw import objs, probes, tol
from vfw.util import quiet, relerr, exc_info

LEVEL = "exploration"
RULE = ("random (sources, sensors, pixel_agg, field) calls; case = full JSON spec; non-trivial = some sensor "
        "is rotated or left-handed or has a path, or pixel_agg is used; distinct by sha1 of the spec")
ASSUMPTIONS = ["library field formulas themselves (C01) - both sides use them",
               "scipy Rotation algebra", "numpy reductions as reference for pixel_agg"]
STATE = {"on": False}
AGGS = ["mean", "min", "max", "sum", "std", "var", "median", "ptp", "prod", "amax", "amin"]


def pick_len(rng, maxlen):
    """1, the longest path, or a length strictly in between (a shorter object then rests at its LAST pose)"""
    return int(rng.choice([1, maxlen, int(rng.integers(1, maxlen + 1))]))


def plan(tier):
    return {"shards": 8 if tier == "quick" else 16, "budget_s": 25 if tier == "quick" else 420,
            "required_counters": ["rotpath:unrotated", "rotpath:static", "rotpath:rotating", "hand:left",
                                  "hand:right"]}


def sensor_orient(rng, n):
    kind = str(rng.choice(["identity", "negid", "static", "translate", "rotating", "id_then_rot", "sign_symmetric"]))
    if kind == "identity":
        q = np.tile([0.0, 0, 0, 1], (n, 1))
    elif kind == "negid":
        q = np.tile([0.0, 0, 0, -1], (n, 1))
    elif kind in ("static", "translate"):
        q = np.tile(objs.rand_rot(rng, 1, "uniform"), (n, 1))
    elif kind == "sign_symmetric":
        # a sweep through +-angle about one axis: the quaternions of the path differ only in component signs
        ax = rng.normal(size=3)
        ax /= np.linalg.norm(ax)
        if rng.random() < 0.5:
            ax = np.eye(3)[int(rng.integers(0, 3))]
        ang = np.deg2rad(rng.uniform(10, 170))
        sg = np.array([(-1) ** i for i in range(n)]) * rng.choice([-1, 1])
        q = R.from_rotvec(np.outer(sg * ang, ax)).as_quat()
    elif kind == "rotating":
        q = np.array(objs.rand_rot(rng, n, "uniform"))
    else:
        q = np.array(objs.rand_rot(rng, n, "uniform"))
        q[: max(1, n // 2)] = [0, 0, 0, 1]
    return kind, q.tolist()


def gen_case(rng):
    nsrc = int(rng.integers(1, 4))
    nsens = int(rng.integers(1, 4))
    maxlen = int(rng.choice([1, 2, 3, 5]))
    srcs = []
    for _ in range(nsrc):
        L = pick_len(rng, maxlen)
        if rng.random() < 0.2:
            kids = [objs.rand_source(rng, path_len=L) for _ in range(int(rng.integers(1, 3)))]
            pos, ori = objs.rand_path(rng, L, 0.3)
            srcs.append({"cls": "Collection", "children": kids, "position": pos, "orientation": ori})
        else:
            srcs.append(objs.rand_source(rng, path_len=L))
    hetero = rng.random() < 0.25
    agg = str(rng.choice(AGGS)) if (hetero or rng.random() < 0.3) else None
    base_pix = objs.rand_sensor(rng)["pixel"]
    sens = []
    for _ in range(nsens):
        L = pick_len(rng, maxlen)
        s = objs.rand_sensor(rng, path_len=L, pixel="auto" if hetero else base_pix)
        kind, q = sensor_orient(rng, L)
        s["orientation"] = q
        s["okind"] = kind
        sens.append(s)
    return {"sources": srcs, "sensors": sens, "pixel_agg": agg, "field": str(rng.choice(list("BHJM"))),
            "sumup": bool(rng.random() < 0.2), "form": str(rng.choice(["top", "sens", "src"]))}


def reference(case):
    import magpylib as magpy

    F = case["field"]
    srcs, sens = case["sources"], case["sensors"]
    M = max([objs.path_len(s) for s in sens] + [objs.path_len(l) for s in srcs for l in objs.leaves(s)])
    out = []  # [l][m][k] -> array pixshape+(3,)
    for s in srcs:
        per_m = []
        for m in range(M):
            fs = objs.build(objs.freeze(s, m))
            per_k = []
            for sn in sens:
                i = min(m, objs.path_len(sn) - 1)
                Rk = R.from_quat(sn["orientation"][i])
                pk = np.array(sn["position"][i])
                pix = np.zeros((1, 3)) if sn["pixel"] is None else np.array(sn["pixel"], float)
                shp = (1, 3) if pix.shape == (3,) else pix.shape
                P = Rk.apply(pix.reshape(-1, 3)) + pk
                with quiet():
                    Bg = getattr(magpy, "get" + F)(fs, P, squeeze=False)  # (1,1,1,n,3)
                Bg = np.asarray(Bg).reshape(-1, 3)
                Bl = Rk.inv().apply(Bg)
                if sn["handedness"] == "left":
                    Bl[:, 0] *= -1
                per_k.append(Bl.reshape(shp))
            per_m.append(per_k)
        out.append(per_m)
    agg = case["pixel_agg"]
    L, K = len(srcs), len(sens)
    if agg is None:
        ref = np.array([[[out[l][m][k] for k in range(K)] for m in range(M)] for l in range(L)])
    else:
        f = getattr(np, agg)
        ref = np.array([[[f(out[l][m][k], axis=tuple(range(out[l][m][k].ndim - 1))) for k in range(K)]
                         for m in range(M)] for l in range(L)])
        ref = ref[:, :, :, None, :]
    if case["sumup"]:
        ref = ref.sum(axis=0, keepdims=True)
    return ref


def check_case(ctx, case, pr=None):
    import magpylib as magpy

    srcs = [objs.build(s) for s in case["sources"]]
    sens = [objs.build({k: v for k, v in s.items() if k != "okind"}) for s in case["sensors"]]
    F = case["field"]
    kw = dict(squeeze=False, pixel_agg=case["pixel_agg"])
    form = case["form"]
    try:
        with quiet():
            STATE["on"] = True
            if form == "sens" and len(sens) == 1:
                got = getattr(sens[0], "get" + F)(*srcs, sumup=case["sumup"], **kw)
            elif form == "src" and len(srcs) == 1 and not case["sumup"]:
                got = getattr(srcs[0], "get" + F)(*sens, **kw)
            else:
                got = getattr(magpy, "get" + F)(srcs, sens, sumup=case["sumup"], **kw)
            STATE["on"] = False
        ref = reference(case)
    except Exception as e:  # the property promises a value
        STATE["on"] = False
        ctx.violation({"kind": "exception", "type": type(e).__name__}, case, exc_info(e))
        return
    nontriv = any(s["okind"] != "identity" or s["handedness"] == "left" or objs.path_len(s) > 1
                  for s in case["sensors"]) or case["pixel_agg"] is not None
    ctx.evaluated(case, nontrivial=nontriv, n=int(np.prod(ref.shape[:-1])))
    for s in case["sensors"]:
        ctx.count("hand:" + s["handedness"])
        ctx.count("okind:" + s["okind"])
    if case["pixel_agg"]:
        ctx.count("agg:" + case["pixel_agg"])
    got = np.asarray(got)
    if got.shape != ref.shape:
        ctx.violation({"kind": "shape"}, case, {"got": got.shape, "want": ref.shape})
        return
    fl = sum(tol.floor_abs(s, F) for s in case["sources"])
    agg = case["pixel_agg"]
    if agg in ("var", "prod"):  # non-linear reductions: compare relative to the magnitude of the reduction
        fl = fl * (1 + float(np.max(np.abs(ref)))) + 1e-9 * float(np.max(np.abs(ref)))
    ok, err = tol.close_a(got, ref, fl, rtol=1e-9 if agg is None else 1e-8)
    if not ok:
        ctx.violation({"kind": "value", "agg": case["pixel_agg"] is not None,
                       "left": any(s["handedness"] == "left" for s in case["sensors"])},
                      case, {"relerr": err, "got": got.ravel()[:6], "want": ref.ravel()[:6]})


def attach_probe(ctx):
    from magpylib._src.fields import field_wrap_BH as W

    pr = ctx.safety

    def cb(fr):
        if not STATE["on"]:
            return
        un = fr.f_locals.get("unrotated_sensors")
        st = fr.f_locals.get("static_sensor_rot")
        if un is None or st is None:
            return
        for u, s in zip(un, st):
            ctx.count("rotpath:" + ("unrotated" if u else "static" if s else "rotating"))

    pr.on_line(W.getBH_level2, "obj_list = set(src_list + sensors)", cb, name="getBH_level2.rotpath")
    return pr


def run_shard(ctx):
    pr = attach_probe(ctx)
    while not ctx.expired():
        case = gen_case(ctx.rng)
        check_case(ctx, case)
    for u in pr.unattached:
        ctx.count("probe_unattached:" + u)


def replay(ctx, case):
    check_case(ctx, case)
