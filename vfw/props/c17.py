"""C17 - malformed inputs are rejected at assignment, valid ones stored faithfully.

Boundary monitor on constructors and attribute setters driven by a value grammar, judged by a
declarative spec table transcribed from docs/_pages/user_guide/docs/docs_classes.md and the
class docstrings: classify(cls, attr, value) -> valid | malformed | unspecified (deliberately
conservative: malformed only where the documentation is unambiguous).
 (a) malformed value accepted;  (b) malformed value rejected by a foreign exception (raised
 implicitly outside a `raise` statement of magpylib) instead of the library's input error;
 (c) a rejected assignment changed the object;  (d) an accepted valid value reads back
 different / aliases the caller's array / differs between constructor and setter;
 (e) an accepted object later fails inside a field computation with an internal error.
"""
from __future__ import annotations

import ast
import linecache
import numbers
import traceback

import numpy as np
from scipy.spatial.transform import Rotation as R

from vfw import objs, digest as D
from vfw.util import quiet, exc_info

LEVEL = "exploration"
RULE = ("every public attribute of every class x value from a grammar (scalars, None, strings, nested sequences of "
        "rank 0-4 and length 0-6, ragged, ndarrays of float/int/object/str dtype, mutated copies of valid values: "
        "drop/append/negate/zero/transpose/wrap) x {constructor, setter}; non-trivial = repr(value) differs from "
        "every literal in tests/test_input_checks.py; distinct by sha1 of (class, attribute, route, repr(value))")
ASSUMPTIONS = ["spec table in this file transcribed from the documentation; 'unspecified' values are only subject "
               "to rules (c) and (e)"]

ATTRS = {
    "Cuboid": ["position", "orientation", "dimension", "polarization", "magnetization"],
    "Cylinder": ["position", "orientation", "dimension", "polarization", "magnetization"],
    "CylinderSegment": ["position", "orientation", "dimension", "polarization", "magnetization"],
    "Sphere": ["position", "orientation", "diameter", "polarization", "magnetization"],
    "Tetrahedron": ["position", "orientation", "vertices", "polarization", "magnetization"],
    "Triangle": ["position", "orientation", "vertices", "polarization", "magnetization"],
    "TriangularMesh": ["position", "orientation", "polarization", "magnetization", "vertices", "faces"],
    "Circle": ["position", "orientation", "diameter", "current"],
    "Polyline": ["position", "orientation", "vertices", "current"],
    "Dipole": ["position", "orientation", "moment"],
    "Sensor": ["position", "orientation", "pixel", "handedness"],
    "CustomSource": ["position", "orientation", "field_func"],
    "Collection": ["position", "orientation"],
}


def plan(tier):
    return {"shards": 8 if tier == "quick" else 16, "budget_s": 25 if tier == "quick" else 300,
            "required_counters": ["judged:valid", "judged:malformed", "judged:unspecified", "rejected", "accepted",
                                  "readback_checks", "late_getB_checks", "route:ctor", "route:setter", "kind:invalid_geometry",
                                  "field_func_cases", "field_func_accepted", "field_func_rejected", "late_getB_checks_in_collection"]}


# ------------------------------------------------------------------ spec table
def as_float_array(v):
    try:
        if isinstance(v, (str, bytes)) or v is None:
            return None
        a = np.array(v, dtype=float)
        return a
    except Exception:
        return None


def has_str(v):
    if isinstance(v, (str, bytes)):
        return True
    if isinstance(v, np.ndarray):
        return v.dtype.kind in "USO" and any(isinstance(x, (str, bytes)) for x in v.ravel().tolist())
    if isinstance(v, (list, tuple)):
        return any(has_str(x) for x in v)
    return False


def classify(cls, attr, v):
    """valid | malformed | unspecified"""
    seq = isinstance(v, (list, tuple, np.ndarray))
    if attr == "orientation":
        if v is None:
            return "valid"
        if isinstance(v, R):
            try:
                n = len(v)
            except TypeError:
                n = 1
            return "valid" if n >= 1 else "malformed"
        return "malformed"
    if attr == "handedness":
        if isinstance(v, str):
            return "valid" if v in ("right", "left") else "malformed"
        return "malformed"
    if attr == "field_func":
        if v is None:
            return "valid"
        if not callable(v):
            return "malformed"
        return "unspecified"
    if attr in ("current", "diameter"):
        if v is None:
            return "valid"
        if isinstance(v, bool):
            return "unspecified"
        if isinstance(v, numbers.Real):
            if not np.isfinite(v):
                return "unspecified"
            if attr == "diameter":
                return "valid" if v > 0 else ("unspecified" if v == 0 else "malformed")
            return "valid"
        if isinstance(v, np.ndarray) and v.ndim == 0 and v.dtype.kind in "fiu":
            return "unspecified"
        return "malformed"
    # vector-like attributes
    if v is None:
        return "valid" if attr not in ("position",) and not (cls == "TriangularMesh" and attr in ("vertices", "faces")) else "malformed"
    if not seq:
        return "malformed"  # scalars / strings / other objects
    if has_str(v):
        a = as_float_array(v)
        return "unspecified" if a is not None else "malformed"
    a = as_float_array(v)
    if a is None:
        return "malformed"  # ragged / non-numeric
    if isinstance(v, np.ndarray) and v.dtype == object:
        return "unspecified"
    if a.size and not np.all(np.isfinite(a)):
        return "unspecified"
    if a.dtype == bool or (isinstance(v, np.ndarray) and v.dtype == bool):
        return "unspecified"

    def boolish(x):
        if isinstance(x, bool):
            return True
        if isinstance(x, (list, tuple)):
            return any(boolish(y) for y in x)
        return False

    if boolish(v):
        return "unspecified"
    sh = a.shape
    if attr == "position":
        if sh == (3,) or (len(sh) == 2 and sh[1] == 3 and sh[0] >= 1):
            return "valid"
        return "malformed"
    if attr in ("polarization", "magnetization", "moment"):
        return "valid" if sh == (3,) else "malformed"
    if attr == "pixel":
        if len(sh) >= 1 and sh[-1] == 3 and a.size > 0:
            return "valid"
        if len(sh) >= 1 and sh[-1] == 3:
            return "unspecified"  # empty pixel array
        return "malformed"
    if attr == "dimension":
        want = {"Cuboid": 3, "Cylinder": 2, "CylinderSegment": 5}[cls]
        if sh != (want,):
            return "malformed"
        if cls in ("Cuboid", "Cylinder"):
            return "valid" if np.all(a > 0) else "malformed"
        r1, r2, h, p1, p2 = a
        if r1 < 0 or r2 <= 0 or h <= 0 or r1 > r2 or p1 > p2 or p2 - p1 > 360:
            return "malformed"
        if r1 == r2 or p1 == p2:
            return "unspecified"  # zero-volume segment: documentation says r1<r2, phi1<phi2; code allows equality
        return "valid"
    if cls == "TriangularMesh" and attr in ("vertices", "faces"):
        # constructor-only; judged against a reference mesh of 4 vertices / 4 faces (see construct())
        if len(sh) != 2 or sh[1] != 3 or sh[0] < 1:
            return "malformed"
        if attr == "vertices":
            return "valid" if sh[0] >= 4 else "unspecified"
        if np.any(a != np.round(a)) or np.any(a < 0):
            return "unspecified"  # truncated by astype(int) / python negative indexing: not documented
        return "valid" if np.all(a < 4) else "malformed"
    if attr == "vertices":
        if cls == "Tetrahedron":
            if sh != (4, 3):
                return "malformed"
            return "valid" if abs(np.linalg.det(a[1:] - a[0])) > 1e-9 else "unspecified"
        if cls == "Triangle":
            if sh != (3, 3):
                return "malformed"
            return "valid" if np.linalg.norm(np.cross(a[1] - a[0], a[2] - a[0])) > 1e-9 else "unspecified"
        if cls == "Polyline":
            if len(sh) == 2 and sh[1] == 3 and sh[0] >= 2:
                return "valid"
            return "malformed"
    return "unspecified"


# ------------------------------------------------------------------ value grammar
def valid_value(rng, cls, attr):
    s = objs.rand_source(rng, cls) if cls in objs.SOURCE_CLASSES else None
    if attr == "position":
        return (rng.normal(size=3) if rng.random() < 0.5 else rng.normal(size=(int(rng.integers(1, 4)), 3))).tolist()
    if attr == "orientation":
        return None if rng.random() < 0.2 else R.random(int(rng.integers(1, 4)), random_state=int(rng.integers(2**31)))
    if attr == "magnetization":
        return (rng.normal(size=3) * 1e5).tolist()
    if attr == "pixel":
        shp = [(3,), (2, 3), (2, 2, 3), (1, 3)][int(rng.integers(0, 4))]
        return rng.normal(size=shp).tolist()
    if cls == "TriangularMesh" and attr == "vertices":
        return (np.array([(0, 0, 0), (1, 0, 0), (0, 1, 0), (0, 0, 1.0)]) + rng.normal(size=(4, 3)) * 0.05).tolist()
    if cls == "TriangularMesh" and attr == "faces":
        return [(0, 2, 1), (0, 1, 3), (1, 2, 3), (0, 3, 2)]
    if attr == "handedness":
        return str(rng.choice(["right", "left"]))
    if attr == "field_func":
        return None
    return s[attr]


def mutate_value(rng, v):
    """mutated copy of a valid value"""
    if isinstance(v, R) or v is None or isinstance(v, str):
        return rng.choice([0, "x", 1.5])
    a = np.array(v, dtype=float)
    k = int(rng.integers(0, 11))
    if k == 0 and a.ndim >= 1 and a.shape[0] > 0:
        return a[:-1].tolist()  # drop an element
    if k == 1 and a.ndim >= 1:
        return np.concatenate([a, a[:1]]).tolist()  # append
    if k == 2:
        return (-a).tolist()
    if k == 3 and a.size:
        b = a.copy()
        b.flat[int(rng.integers(0, b.size))] = 0.0
        return b.tolist()
    if k == 4 and a.ndim == 2:
        return a.T.tolist()
    if k == 5:
        return [a.tolist()]  # wrap
    if k == 6 and a.ndim >= 1 and a.size:
        l = a.tolist()
        l[0] = "a"
        return l
    if k == 7 and a.ndim == 2:
        return a[:, :2].tolist()
    if k == 8 and a.ndim >= 1 and a.shape[0] > 1:
        l = a.tolist()
        if isinstance(l[0], list):
            l[0] = l[0][:-1]  # ragged
        return l
    if k == 9:
        return a  # the ndarray itself (alias check)
    return a.astype(int) if a.size else a


def grammar_value(rng):
    k = int(rng.integers(0, 17))
    if k == 16:
        return np.array(float(rng.normal()))   # 0-dimensional ndarray
    if k == 0:
        return None
    if k == 1:
        return str(rng.choice(["", "abc", "right", "1.5", "x"]))
    if k == 2:
        return float(rng.normal())
    if k == 3:
        return int(rng.integers(-3, 4))
    if k == 4:
        return bool(rng.integers(0, 2))
    if k == 5:
        return np.float64(rng.normal())
    if k in (6, 7, 8):
        rank = int(rng.integers(1, 5))
        shp = tuple(int(rng.choice([0, 1, 2, 3, 3, 3, 4, 5, 6])) for _ in range(rank))
        a = rng.normal(size=shp)
        return a.tolist() if k != 8 else a
    if k == 9:
        return [[1, 2, 3], [4, 5]]
    if k == 10:
        return np.array([["1", "2", "3"]])[int(rng.integers(0, 1))]
    if k == 11:
        return np.array([1, 2, 3], dtype=object)
    if k == 12:
        return np.array(["a", "b", "c"])
    if k == 13:
        return (1, 2, 3)
    if k == 14:
        return {"a": 1}
    return [None, None, None]


def test_literals():
    try:
        src = open(objs.__file__.replace("/verif/vfw/objs.py", "/repo/tests/test_input_checks.py")).read()
    except Exception:
        try:
            src = open("/repo/tests/test_input_checks.py").read()
        except Exception:
            return set()
    out = set()
    for node in ast.walk(ast.parse(src)):
        if isinstance(node, (ast.List, ast.Tuple, ast.Constant, ast.Dict)):
            try:
                out.add(repr(ast.literal_eval(node)))
            except Exception:
                pass
    return out


# ------------------------------------------------------------------ exception classification
def classify_exception(e):
    """library | explicit-builtin | foreign"""
    from magpylib._src.exceptions import MagpylibBadUserInput, MagpylibMissingInput

    if isinstance(e, (MagpylibBadUserInput, MagpylibMissingInput)):
        return "library"
    tb = traceback.extract_tb(e.__traceback__)
    last = tb[-1]
    if "/magpylib/" in last.filename:
        line = (last.line or linecache.getline(last.filename, last.lineno)).strip()
        # the frame's current line may be the start of a multi-line statement
        if line.startswith("raise"):
            return "explicit-builtin"
        # look a few lines further for the raise of a multi-line statement
        for k in range(0, 4):
            l2 = linecache.getline(last.filename, last.lineno - k).strip()
            if l2.startswith("raise"):
                return "explicit-builtin"
    return "foreign"


# ------------------------------------------------------------------ build helpers
def base_spec(rng, cls):
    if cls in objs.SOURCE_CLASSES:
        return objs.rand_source(rng, cls)
    if cls == "Sensor":
        return objs.rand_sensor(rng)
    if cls == "CustomSource":
        return {"cls": "CustomSource", "position": [[0.0, 0, 0]], "orientation": [[0.0, 0, 0, 1]]}
    return {"cls": "Collection", "children": [], "position": [[0.0, 0, 0]], "orientation": [[0.0, 0, 0, 1]]}


def construct(cls, spec, attr, value):
    """constructor route: class(**valid_others, attr=value)"""
    import magpylib as magpy

    C = (getattr(magpy.magnet, cls, None) or getattr(magpy.current, cls, None) or getattr(magpy.misc, cls, None)
         or getattr(magpy, cls))
    kw = {}
    for k in ("dimension", "diameter", "vertices", "faces", "polarization", "current", "moment", "pixel", "handedness"):
        if k in spec:
            kw[k] = spec[k]
    if attr == "magnetization":
        kw.pop("polarization", None)
    if cls == "TriangularMesh" and attr in ("vertices", "faces"):
        kw["vertices"] = [(0, 0, 0), (1, 0, 0), (0, 1, 0), (0, 0, 1)]
        kw["faces"] = [(0, 2, 1), (0, 1, 3), (1, 2, 3), (0, 3, 2)]
        kw.update(check_open="ignore", check_disconnected="ignore", check_selfintersecting="ignore", reorient_faces="skip")
    kw[attr] = value
    return C(**kw)


def check_case(ctx, case, value=None):
    """case is JSON-able (value stored as repr + generator seed); value passed live when available"""
    import magpylib as magpy

    rng = np.random.default_rng(case["seed"])
    cls, attr, route = case["cls"], case["attr"], case["route"]
    if cls == "TriangularMesh" and attr in ("vertices", "faces"):
        route = "ctor"  # no setter: vertices and faces are fixed at construction
    spec = base_spec(rng, cls)
    if value is None:
        value = make_value(rng, cls, attr, case["kind"])
    verdict = classify(cls, attr, value)
    ctx.count("judged:" + verdict)
    ctx.count("route:" + route)
    ctx.count("kind:" + case["kind"])
    lits = ctx.__dict__.setdefault("_lits", test_literals())
    rep = repr(value.tolist() if isinstance(value, np.ndarray) else value)
    ctx.evaluated({**case, "value_repr": rep[:300]}, nontrivial=rep not in lits)
    key = {"cls": cls, "attr": attr, "route": route}
    caller_copy = value.copy() if isinstance(value, np.ndarray) else None
    obj, before, raised = None, None, None
    try:
        with quiet():
            if route == "ctor":
                obj = construct(cls, spec, attr, value)
            else:
                obj = objs.build(spec)
                before = D.digest_tree(obj)
                setattr(obj, attr, value)
    except Exception as e:
        raised = e
    if raised is not None:
        ctx.count("rejected")
        kind = classify_exception(raised)
        ctx.count("reject_kind:" + kind)
        if kind != "library":
            ctx.count("nonstandard_reject_type:" + type(raised).__name__)
        if verdict == "valid":
            ctx.violation({**key, "kind": "valid-value-rejected", "type": type(raised).__name__}, case,
                          {"value": rep[:300], "exc": exc_info(raised)})
            return
        if verdict == "malformed" and kind == "foreign":
            ctx.violation({**key, "kind": "foreign-exception", "type": type(raised).__name__}, case,
                          {"value": rep[:300], "exc": exc_info(raised)})
        if route == "setter" and obj is not None and D.digest_tree(obj) != before:
            ctx.violation({**key, "kind": "rejected-assignment-changed-object", "type": type(raised).__name__}, case,
                          {"value": rep[:300], "diff": D.diff(before, D.digest_tree(obj))})
        return
    ctx.count("accepted")
    if verdict == "malformed":
        ctx.violation({**key, "kind": "malformed-accepted"}, case, {"value": rep[:300]})
        return
    # (d) faithful storage for valid values
    if verdict == "valid" and attr not in ("field_func",):
        ctx.count("readback_checks")
        got = getattr(obj, attr)
        if attr == "orientation":
            want = R.identity() if value is None else value
            try:
                ok = np.allclose((got * want.inv()).magnitude(), 0, atol=1e-12)
            except Exception:
                ok = False
        elif attr == "handedness":
            ok = got == value
        elif value is None:
            ok = got is None
        else:
            want = np.array(value, dtype=float)
            g = np.asarray(got)
            ok = (g.shape == want.shape or g.shape == np.squeeze(want).shape) and np.array_equal(np.squeeze(g), np.squeeze(want)) \
                and (g.dtype == float or np.isscalar(got) or attr == "faces")
            if attr == "position":
                ok = np.array_equal(np.asarray(obj._position), want.reshape(-1, 3)) and obj._position.dtype == float
        if not ok:
            ctx.violation({**key, "kind": "readback-differs"}, case, {"value": rep[:300], "got": repr(got)[:300]})
            return
        if isinstance(value, np.ndarray):
            stored = getattr(obj, "_" + attr, None)
            if isinstance(stored, np.ndarray) and np.shares_memory(stored, value):
                ctx.violation({**key, "kind": "stored-value-aliases-caller-array"}, case, {"value": rep[:200]})
                return
            if value.size and value.flags.writeable:
                value.flat[0] += 17.0
                again = getattr(obj, "_" + attr, None)
                if isinstance(again, np.ndarray) and again.size and np.asarray(again, float).flat[0] == value.flat[0] \
                        and caller_copy.flat[0] != value.flat[0]:
                    ctx.violation({**key, "kind": "caller-mutation-visible"}, case, {})
                    return
        # constructor and setter agree
        try:
            if cls == "TriangularMesh" and attr in ("vertices", "faces"):
                raise StopIteration  # constructor only: no second route to compare with
            with quiet():
                orig = caller_copy if isinstance(value, np.ndarray) else value
                other = construct(cls, spec, attr, orig) if route == "setter" else None
                if other is None:
                    other = objs.build(spec)
                    setattr(other, attr, orig)
            a, b = getattr(obj, attr), getattr(other, attr)
            ctx.count("ctor_setter_pairs")
            same = (a is None and b is None) or (isinstance(a, R) and np.allclose((a * b.inv()).magnitude(), 0)) or \
                (not isinstance(a, R) and np.array_equal(np.asarray(a), np.asarray(b)))
            if not same:
                ctx.violation({**key, "kind": "ctor-setter-differ"}, case, {"ctor_or_this": repr(a)[:200], "other": repr(b)[:200]})
                return
        except StopIteration:
            pass
        except Exception as e:
            ctx.violation({**key, "kind": "other-route-rejects", "type": type(e).__name__}, case,
                          {"value": rep[:300], "exc": exc_info(e)})
            return
    # (e) no late internal failure
    if cls not in ("Collection",):
        from magpylib._src.exceptions import MagpylibBadUserInput, MagpylibMissingInput

        ctx.count("late_getB_checks")
        try:
            with quiet(), np.errstate(all="ignore"):
                if cls == "Sensor":
                    magpy.getB(magpy.misc.Dipole(moment=(1, 2, 3)), obj)
                else:
                    try:
                        magpy.getB(obj, [(2.1, 3.2, 4.3), (0.1, 0.2, 0.05)])
                    finally:
                        # the same source as (grand)child of a collection and next to a complete source: the
                        # completeness checks must see through the flattening
                        ctx.count("late_getB_checks_in_collection")
                        ok_src = magpy.misc.Dipole(moment=(1, 2, 3))
                        magpy.getB([ok_src, magpy.Collection(magpy.Collection(obj))], [(2.1, 3.2, 4.3)])
        except (MagpylibBadUserInput, MagpylibMissingInput):
            ctx.count("late_library_error")
        except Exception as e:
            ctx.violation({**key, "kind": "late-internal-error", "type": type(e).__name__, "judged": verdict}, case,
                          {"value": rep[:300], "exc": exc_info(e)})


def invalid_geometry(rng, cls, attr):
    """well-formed values whose geometry is invalid by the documentation (each rule exercised explicitly)"""
    if attr == "dimension" and cls == "CylinderSegment":
        r1, r2, h = float(rng.uniform(0.1, 1)), float(rng.uniform(1.1, 2)), float(rng.uniform(0.2, 2))
        p1 = float(rng.uniform(-360, 360))
        k = int(rng.integers(0, 8))
        return [[r2, r1, h, p1, p1 + 90],                       # inner radius above outer radius
                [r1, r2, h, p1 + 90, p1],                       # reversed angle range
                [r1, r2, h, p1, p1 + 360 + float(rng.uniform(1e-6, 400))],  # more than 360 degrees
                [r1, r2, -h, p1, p1 + 90], [r1, r2, 0.0, p1, p1 + 90],      # height <= 0
                [-r1, r2, h, p1, p1 + 90], [r1, -r2, h, p1, p1 + 90], [0.0, 0.0, h, p1, p1 + 90]][k]
    if attr == "dimension":
        n = 3 if cls == "Cuboid" else 2
        d = rng.uniform(0.2, 2, n)
        d[int(rng.integers(0, n))] *= float(rng.choice([-1.0, 0.0]))
        return d.tolist()
    if attr == "diameter":
        return -float(rng.uniform(0.1, 2))
    if attr == "vertices" and cls == "Tetrahedron":
        v = rng.normal(size=(4, 3))
        return v[: int(rng.choice([3, 5])) if rng.random() < 0.5 else 4, : 3 if rng.random() < 0.5 else 2].tolist() \
            if rng.random() < 0.7 else np.r_[v, v[:1]].tolist()
    if attr == "vertices" and cls == "Triangle":
        return rng.normal(size=(int(rng.choice([2, 4])), 3)).tolist()
    if attr == "vertices" and cls == "Polyline":
        return rng.normal(size=(1, 3)).tolist()
    return None


def make_value(rng, cls, attr, kind):
    if kind == "invalid_geometry":
        v = invalid_geometry(rng, cls, attr)
        if v is not None:
            return v
        kind = "mutated"
    if kind == "valid":
        return valid_value(rng, cls, attr)
    if kind == "mutated":
        return mutate_value(rng, valid_value(rng, cls, attr))
    if kind == "other_attr":
        other = [a for a in ATTRS[cls] if a != attr]
        return valid_value(rng, cls, other[int(rng.integers(0, len(other)))])
    return grammar_value(rng)


FF_RET = ["ok", "none", "scalar", "list", "shape_n", "shape_n4", "shape_T", "string"]
FF_SIG = ["good", "badnames", "onearg"]


def make_ff(bB, bH, sig):
    """CustomSource field function from the grammar: documented contract = first two positional arguments named
    field, observers; returns an ndarray of shape (n,3) for 'B' and 'H', or None for a field it does not provide"""
    def ret(kind, obs):
        n = len(obs)
        return {"ok": lambda: np.asarray(obs, float) * 0.5 + 1.0, "none": lambda: None, "scalar": lambda: 1.0,
                "list": lambda: [[1.0, 2.0, 3.0]] * n, "shape_n": lambda: np.ones(n), "shape_n4": lambda: np.ones((n, 4)),
                "shape_T": lambda: np.ones((3, n + 1)), "string": lambda: "B"}[kind]()
    if sig == "good":
        def f(field, observers):
            return ret(bB if field == "B" else (bH if field == "H" else "none"), observers)
    elif sig == "badnames":
        def f(kind, points):
            return ret(bB if kind == "B" else bH, points)
    else:
        def f(field):
            return None
    return f


def check_field_func(ctx, case):
    import magpylib as magpy
    from magpylib._src.exceptions import MagpylibBadUserInput, MagpylibMissingInput

    bB, bH, sig, route = case["B"], case["H"], case["sig"], case["route"]
    valid = sig == "good" and bB in ("ok", "none") and bH in ("ok", "none")
    f = make_ff(bB, bH, sig)
    key = {"cls": "CustomSource", "attr": "field_func", "route": route}
    ctx.count("field_func_cases")
    ctx.evaluated(case, nontrivial=True)
    obj, raised, before = None, None, None
    try:
        with quiet():
            if route == "ctor":
                obj = magpy.misc.CustomSource(field_func=f)
            else:
                obj = magpy.misc.CustomSource(field_func=make_ff("ok", "ok", "good"), position=(1, 2, 3))
                before = (obj.field_func, D.digest_tree(obj))
                obj.field_func = f
    except Exception as e:
        raised = e
    if raised is not None:
        ctx.count("field_func_rejected")
        if valid:
            ctx.violation({**key, "kind": "valid-value-rejected", "type": type(raised).__name__}, case, exc_info(raised))
        elif not isinstance(raised, MagpylibBadUserInput):
            ctx.violation({**key, "kind": "foreign-exception", "type": type(raised).__name__}, case, exc_info(raised))
        if route == "setter" and obj is not None and (obj.field_func is not before[0] or D.digest_tree(obj) != before[1]):
            ctx.violation({**key, "kind": "rejected-assignment-changed-object", "type": type(raised).__name__}, case, {})
        return
    ctx.count("field_func_accepted")
    if not valid:
        ctx.violation({**key, "kind": "malformed-accepted"}, case, {"B": bB, "H": bH, "sig": sig})
        return
    for F, b in (("B", bB), ("H", bH)):
        try:
            with quiet():
                out = np.asarray(getattr(obj, "get" + F)([(1, 2, 3), (4, 5, 6)]))
            if b == "none" or out.shape != (2, 3):
                ctx.violation({**key, "kind": "field-of-unprovided-field_func" if b == "none" else "shape"}, case, {"out": out})
        except (MagpylibBadUserInput, MagpylibMissingInput):
            if b != "none":
                ctx.violation({**key, "kind": "valid-field_func-fails-late"}, case, {"field": F})
        except Exception as e:
            ctx.violation({**key, "kind": "late-internal-error", "type": type(e).__name__, "judged": "valid"}, case, exc_info(e))


def run_shard(ctx):
    rng = ctx.rng
    classes = list(ATTRS)
    grid = [(b, h, sg, rt) for b in FF_RET for h in FF_RET for sg in FF_SIG for rt in ("ctor", "setter")]
    for j, (b, h, sg, rt) in enumerate(grid):
        if j % ctx.nshards == ctx.shard:
            check_field_func(ctx, {"ff_grammar": True, "B": b, "H": h, "sig": sg, "route": rt})
    ctx.count("field_func_slices_completed")
    while not ctx.expired():
        cls = classes[int(rng.integers(0, len(classes)))]
        attr = ATTRS[cls][int(rng.integers(0, len(ATTRS[cls])))]
        case = {"cls": cls, "attr": attr, "route": str(rng.choice(["ctor", "setter"])),
                "kind": str(rng.choice(["valid", "mutated", "grammar", "other_attr", "invalid_geometry"], p=[0.2, 0.3, 0.25, 0.1, 0.15])),
                "seed": int(rng.integers(0, 2**31))}
        if case["kind"] == "invalid_geometry":
            geo = [(c, a) for c in ATTRS for a in ATTRS[c] if a in ("dimension", "diameter") or (a == "vertices" and c != "TriangularMesh")]
            case["cls"], case["attr"] = geo[int(rng.integers(0, len(geo)))]
        check_case(ctx, case)


def replay(ctx, case):
    if case.get("ff_grammar"):
        return check_field_func(ctx, case)
    check_case(ctx, case)
