"""C11 - the collection tree stays a consistent forest under any history.

Global invariant monitor over the UNIVERSE of objects a history created (collections created
implicitly by '+', copy() and constructors are registered by wrapping BaseCollection.__init__,
also when that __init__ raises half-way).  After every operation - returned or raised - :
 I1 parent <-> children agree by identity (each child listed exactly once by its parent,
    every listed child points back), I2 no duplicate children, I3 no cycles,
 I4 sources/sensors/collections are the ordered typed filters of children and the *_all views
    are the pre-order typed flattening, I5 describe() terminates.
"""
from __future__ import annotations

import itertools

import numpy as np

from vfw.util import quiet, exc_info

LEVEL = "exploration"
RULE = ("exhaustive: all single operations (thorough: all histories of length 2) over a 4-object universe "
        "{source, sensor, 2 collections} with argument tuples of length <= 2 incl. a non-magpylib object; random "
        "histories of length <= 15 over 3 sources, 2 sensors, 3 collections; ops: add / remove / parent= / "
        "children= / sources= / sensors= / collections= / '+' / copy / Collection(...), override_parent and "
        "recursive on/off, errors raise/ignore/garbage; non-trivial = the operation raised after >= 1 argument "
        "was processed, or moved an object between parents, or acted >= 2 levels deep; distinct by sha1 of history")
ASSUMPTIONS = ["the universe registry sees every collection ever constructed during the history "
               "(BaseCollection.__init__ wrapper) and every object returned by copy()/'+'"]
JUNK = ["junk-string", 42]


def plan(tier):
    return {"shards": 8 if tier == "quick" else 16, "budget_s": 25 if tier == "quick" else 420,
            "required_counters": ["ops_returned", "ops_raised", "exhaustive_histories", "random_histories",
                                  "raised_after_partial_processing", "copy_raised", "copy_returned"],
            "exhaustive": "all single operations over the 4-object universe (quick); all histories of length 2 "
                          "(thorough, when counter exhaustive_len2_slices_completed == shards)"}


# ------------------------------------------------------------------ universe
def uncopyable_field_func():
    """a valid field_func that deepcopy cannot copy (a functools.partial bound to a lock - stands for an
    interpolation table with an open file, a lock, a C handle ...): copy() of the source, or of any collection
    containing it, raises part-way"""
    import functools
    import threading

    def table_field(field, observers, table):
        return np.zeros((len(observers), 3)) if field == "B" else None
    return functools.partial(table_field, table=threading.Lock())


COPY_KW = {None: {}, "bad_position": {"position": "nowhere"}, "bad_style": {"style_nosuchproperty": 1},
           "bad_style_value": {"style_opacity": "very"}, "ok_position": {"position": (1, 2, 3)}}


class Universe:
    def __init__(self, n_src, n_sens, n_coll, flavor=0):
        import magpylib as magpy
        from magpylib._src.obj_classes import class_Collection as CC

        self.objs = []
        self._orig_init = CC.BaseCollection.__init__
        uni = self

        def init(slf, *a, **k):
            uni.register(slf)
            return uni._orig_init(slf, *a, **k)

        CC.BaseCollection.__init__ = init
        self.CC = CC
        with quiet():
            for i in range(n_src):
                if flavor == 1 and i in (0, 2):
                    self.register(magpy.misc.CustomSource(field_func=uncopyable_field_func()))
                    continue
                self.register(magpy.magnet.Cuboid(dimension=(1, 1, 1), polarization=(0, 0, 1)) if i % 2 == 0
                              else magpy.current.Circle(diameter=1, current=1))
            for _ in range(n_sens):
                self.register(magpy.Sensor())
            for _ in range(n_coll):
                magpy.Collection()  # registered by the wrapper
        self.n0 = len(self.objs)

    def close(self):
        self.CC.BaseCollection.__init__ = self._orig_init

    def register(self, o):
        if not any(o is x for x in self.objs):
            self.objs.append(o)

    def register_tree(self, o, seen=None):
        seen = seen if seen is not None else set()
        if id(o) in seen:
            return
        seen.add(id(o))
        self.register(o)
        for c in list(getattr(o, "_children", []) or []):
            self.register_tree(c, seen)

    def resolve(self, ref):
        if isinstance(ref, str) and ref.startswith("junk"):
            return JUNK[int(ref[4:])]
        return self.objs[ref % len(self.objs)]

    def colls(self):
        return [i for i, o in enumerate(self.objs) if hasattr(o, "_children")]


def is_coll(o):
    return hasattr(o, "_children")


# ------------------------------------------------------------------ invariants
def check_invariants(uni):
    from magpylib._src.obj_classes.class_BaseExcitations import BaseSource
    from magpylib._src.obj_classes.class_Sensor import Sensor
    from magpylib._src.obj_classes.class_Collection import Collection

    U = uni.objs
    name = lambda o: f"{type(o).__name__}#{next((i for i, x in enumerate(U) if x is o), '?')}"
    for o in U:
        p = getattr(o, "_parent", None)
        if p is not None:
            if not is_coll(p):
                return "I1", f"{name(o)}.parent is not a collection"
            k = sum(1 for c in p._children if c is o)
            if k != 1:
                return "I1", f"{name(o)}.parent = {name(p)} which lists it {k} times"
        if is_coll(o):
            ids = [id(c) for c in o._children]
            if len(ids) != len(set(ids)):
                return "I2", f"{name(o)} has duplicate children"
            for c in o._children:
                if getattr(c, "_parent", None) is not o:
                    return "I1", f"{name(o)} lists {name(c)} whose parent is {name(c._parent) if c._parent is not None else None}"
                if not any(c is x for x in U):
                    uni.register(c)
    # I3 cycles
    for o in U:
        seen = set()
        x = o
        while x is not None:
            if id(x) in seen:
                return "I3", f"parent cycle through {name(o)}"
            seen.add(id(x))
            x = getattr(x, "_parent", None)
    for o in U:
        if is_coll(o):
            stack, seen = list(o._children), set()
            while stack:
                c = stack.pop()
                if c is o:
                    return "I3", f"{name(o)} contains itself"
                if id(c) in seen:
                    continue
                seen.add(id(c))
                stack.extend(getattr(c, "_children", []) or [])
    # I4 typed views
    for o in U:
        if not is_coll(o):
            continue
        ch = o._children
        for attr, typ in (("_sources", BaseSource), ("_sensors", Sensor), ("_collections", Collection)):
            want = [c for c in ch if isinstance(c, typ)]
            got = getattr(o, attr)
            if len(want) != len(got) or any(a is not b for a, b in zip(want, got)):
                return "I4", f"{name(o)}.{attr[1:]} = {[name(x) for x in got]} but children of that type = {[name(x) for x in want]}"

        def flat(c, typ):
            out = []
            for x in c._children:
                if isinstance(x, typ):
                    out.append(x)
                if is_coll(x):
                    out += flat(x, typ)
            return out

        for attr, typ in (("sources_all", BaseSource), ("sensors_all", Sensor), ("collections_all", Collection),
                          ("children_all", (BaseSource, Sensor, Collection))):
            want = flat(o, typ)
            got = getattr(o, attr)
            if len(want) != len(got) or any(a is not b for a, b in zip(want, got)):
                return "I4", f"{name(o)}.{attr} is not the pre-order flattening"
        for pub, priv in (("children", "_children"), ("sources", "_sources"), ("sensors", "_sensors"), ("collections", "_collections")):
            if getattr(o, pub) is not getattr(o, priv) and list(getattr(o, pub)) != list(getattr(o, priv)):
                return "I4", f"{name(o)}.{pub} differs from its backing list"
    # I5 describe terminates
    for o in U:
        if is_coll(o):
            try:
                with quiet():
                    o.describe(return_string=True)
            except RecursionError:
                return "I5", f"describe() of {name(o)} does not terminate"
            except Exception:
                pass
    return None


def shape_of(uni):
    """canonical forest shape (for counting distinct shapes reached)"""
    def sh(o):
        return (type(o).__name__[0], tuple(sh(c) for c in getattr(o, "_children", []) or []))
    return tuple(sorted(repr(sh(o)) for o in uni.objs if getattr(o, "_parent", None) is None))


# ------------------------------------------------------------------ operations
def apply_op(uni, op):
    import magpylib as magpy

    k = op["op"]
    args = [uni.resolve(a) for a in op.get("args", [])]
    if k == "add":
        c = uni.resolve(op["c"])
        return c.add(args, override_parent=op["override"]) if op.get("as_list") else c.add(*args, override_parent=op["override"])
    if k == "remove":
        c = uni.resolve(op["c"])
        return c.remove(*args, recursive=op["recursive"], errors=op["errors"])
    if k == "set_parent":
        o = uni.resolve(op["o"])
        o.parent = None if op["p"] is None else uni.resolve(op["p"])
        return None
    if k in ("children", "sources", "sensors", "collections"):
        setattr(uni.resolve(op["c"]), k, args)
        return None
    if k == "plus":
        r = uni.resolve(op["a"]) + uni.resolve(op["b"])
        uni.register_tree(r)
        return r
    if k == "copy":
        r = uni.resolve(op["o"]).copy(**COPY_KW[op.get("kw")])
        uni.register_tree(r)
        return r
    if k == "new":
        r = magpy.Collection(*args, override_parent=op["override"])
        uni.register_tree(r)
        return r
    raise ValueError(k)


def targets_collection(uni, op):
    if "c" in op:
        return is_coll(uni.resolve(op["c"]))
    return True


def all_ops(n_obj, coll_idx, max_args=2, junk=("junk0",)):
    refs = list(range(n_obj)) + list(junk)
    tuples1 = [(a,) for a in refs]
    tuples2 = [(a, b) for a in refs for b in refs]
    argsets = tuples1 + (tuples2 if max_args >= 2 else [])
    ops = []
    for c in coll_idx:
        for a in argsets:
            for ov in (False, True):
                ops.append({"op": "add", "c": c, "args": list(a), "override": ov})
            for rec in (True, False):
                for er in ("raise", "ignore"):
                    ops.append({"op": "remove", "c": c, "args": list(a), "recursive": rec, "errors": er})
        for kind in ("children", "sources", "sensors", "collections"):
            for a in [()] + argsets:
                ops.append({"op": kind, "c": c, "args": list(a)})
    for o in range(n_obj):
        for p in coll_idx + [None, "junk0"]:
            ops.append({"op": "set_parent", "o": o, "p": p})
        for kw in COPY_KW:
            ops.append({"op": "copy", "o": o, "kw": kw})
        for b in range(n_obj):
            ops.append({"op": "plus", "a": o, "b": b})
    for a in [()] + argsets:
        for ov in (False, True):
            ops.append({"op": "new", "args": list(a), "override": ov})
    return ops


def rand_op(rng, n_obj, colls):
    refs = lambda k: [int(rng.integers(0, n_obj)) if rng.random() > 0.08 else "junk%d" % rng.integers(0, 2) for _ in range(k)]
    c = int(colls[int(rng.integers(0, len(colls)))]) if colls else 0
    k = str(rng.choice(["add", "remove", "set_parent", "children", "sources", "sensors", "collections", "plus", "copy", "new"],
                       p=[0.3, 0.15, 0.12, 0.06, 0.05, 0.05, 0.05, 0.07, 0.07, 0.08]))
    if k == "add":
        a = refs(int(rng.integers(1, 4)))
        if rng.random() < 0.15:
            a.append(a[0])
        return {"op": "add", "c": c, "args": a, "override": bool(rng.random() < 0.5), "as_list": bool(rng.random() < 0.3)}
    if k == "remove":
        return {"op": "remove", "c": c, "args": refs(int(rng.integers(1, 3))), "recursive": bool(rng.random() < 0.6),
                "errors": str(rng.choice(["raise", "ignore", "garbage"], p=[0.5, 0.4, 0.1]))}
    if k == "set_parent":
        u = rng.random()
        return {"op": "set_parent", "o": int(rng.integers(0, n_obj)), "p": None if u < 0.2 else ("junk0" if u < 0.3 else c)}
    if k in ("children", "sources", "sensors", "collections"):
        return {"op": k, "c": c, "args": refs(int(rng.integers(0, 4)))}
    if k == "plus":
        return {"op": "plus", "a": int(rng.integers(0, n_obj)), "b": int(rng.integers(0, n_obj))}
    if k == "copy":
        return {"op": "copy", "o": int(rng.integers(0, n_obj)),
                "kw": [None, "bad_position", "bad_style", "bad_style_value", "ok_position"][int(rng.integers(0, 5))]}
    return {"op": "new", "args": refs(int(rng.integers(0, 4))), "override": bool(rng.random() < 0.5)}


# ------------------------------------------------------------------ running one history
def run_history(ctx, case):
    uni = Universe(*case["universe"])
    try:
        shapes = ctx.__dict__.setdefault("_shapes", set())
        for i, op in enumerate(case["ops"]):
            parents_before = [id(getattr(o, "_parent", None)) for o in uni.objs]
            depth = 0
            if "c" in op:
                x = uni.resolve(op["c"])
                while getattr(x, "_parent", None) is not None and depth < 50:
                    x = x._parent
                    depth += 1
            raised = None
            if not targets_collection(uni, op):
                ctx.count("ops_skipped_target_not_a_collection")
                continue
            try:
                with quiet():
                    apply_op(uni, op)
            except RecursionError as e:
                raised = e
            except Exception as e:
                raised = e
            # also register whatever a half-finished constructor left reachable
            for o in list(uni.objs):
                p = getattr(o, "_parent", None)
                if p is not None:
                    uni.register(p)
            ctx.count("ops_raised" if raised is not None else "ops_returned")
            if op["op"] == "copy":
                ctx.count("copy_raised" if raised is not None else "copy_returned")
            if raised is not None:
                ctx.count("raise_type:" + type(raised).__name__)
            parents_after = [id(getattr(o, "_parent", None)) for o in uni.objs[: len(parents_before)]]
            moved = sum(1 for a, b in zip(parents_before, parents_after) if a != b and a != id(None))
            partial = raised is not None and len(op.get("args", [])) >= 2
            if partial:
                ctx.count("raised_after_partial_processing")
            ctx.evaluated({"case": case, "upto": i}, nontrivial=bool(partial or moved or depth >= 1))
            bad = check_invariants(uni)
            if bad:
                inv, what = bad
                ctx.violation({"kind": "forest-invariant", "invariant": inv, "op": op["op"],
                               "raised": type(raised).__name__ if raised is not None else None},
                              {**case, "ops": case["ops"][: i + 1]},
                              {"what": what, "raised": exc_info(raised) if raised is not None else None, "op": op})
                return
            s = shape_of(uni)
            if s not in shapes and len(shapes) < 100000:
                shapes.add(s)
                ctx.count("distinct_forest_shapes")
    finally:
        uni.close()


def run_shard(ctx):
    rng = ctx.rng
    base = (1, 1, 2)  # universe: source 0, sensor 1, collections 2,3
    ops1 = all_ops(4, [2, 3])
    ctx.count("single_op_space", len(ops1) if ctx.shard == 0 else 0)
    # exhaustive: single ops on two start states (empty forest / a small pre-built tree)
    pre = [[], [{"op": "add", "c": 2, "args": [0, 3], "override": False}, {"op": "add", "c": 3, "args": [1], "override": False}]]
    for j, op in enumerate(ops1):
        if j % ctx.nshards != ctx.shard:
            continue
        for p in pre:
            run_history(ctx, {"universe": base, "ops": p + [op]})
            ctx.count("exhaustive_histories")
            if op["op"] in ("copy", "plus"):   # the same with a source that deepcopy cannot copy
                run_history(ctx, {"universe": base + (1,), "ops": p + [op]})
                ctx.count("exhaustive_histories")
    if ctx.tier == "thorough":
        pairs_done = 0
        n = len(ops1)
        for idx in range(ctx.shard, n * n, ctx.nshards):
            if ctx.time_left() < ctx.budget_s * 0.35:
                break
            a, b = divmod(idx, n)
            run_history(ctx, {"universe": base, "ops": [ops1[a], ops1[b]]})
            ctx.count("exhaustive_histories")
            pairs_done += 1
        else:
            ctx.count("exhaustive_len2_slices_completed")
        ctx.count("len2_histories", pairs_done)
    while not ctx.expired():
        uni_sz = (3, 2, 3)
        n_obj = sum(uni_sz)
        if rng.random() < 0.3:
            uni_sz = uni_sz + (1,)
        ops = []
        for _ in range(int(rng.integers(1, 16))):
            ops.append(rand_op(rng, n_obj + len(ops) // 3, list(range(5, 8)) + list(range(8, 8 + len(ops) // 3))))
        run_history(ctx, {"universe": uni_sz, "ops": ops})
        ctx.count("random_histories")


def replay(ctx, case):
    run_history(ctx, case)
