"""C15 - every finite input yields a finite field in bounded time.

Monitors: non-finite sanitizer + shape check on every returned array, loop back-edge budget
(vfw.safety, sys.monitoring) on the data-dependent loops of cel/el3, and exception capture.
Workload: Cartesian products of special coordinate values per geometry (faces, edges, corners,
axis, rim, wedge sides, extension lines, branch thresholds, +-1,2,4 ulp, values whose square
underflows, distances up to 1e12 sizes), zero excitations / zero sizes, batch sizes that drive both
the scalar and the vectorised elliptic routines, identity and generic poses.
Documented singular points are decided by the harness's own exact predicate.
"""
from __future__ import annotations

import itertools

import numpy as np
from scipy.spatial.transform import Rotation as R

from vfw import objs
from vfw.oracles import geometry as G
from vfw.probes import NonTermination
from vfw.util import quiet, exc_info

LEVEL = "exploration"
RULE = ("per geometry the product of special coordinate values (exact, +-1/2/4 ulp, underflowing, thresholds, "
        "huge) in the natural coordinate system, evaluated in batches of 1/9/10/15/40 for B,H,J,M, identity and "
        "generic poses, OO and functional interface (zero sizes); non-trivial = at least two coordinates special; "
        "distinct by sha1 of (source spec, observer)")
ASSUMPTIONS = ["documented singular points = Dipole location, vertices of Triangle-based sources "
               "(triangle_Bfield docstring: 'Corners give (nan, nan, nan)'; dipole_Hfield: inf at origin)",
               "loop budget 2000 back-edges per call of cel0/celv/cel_iter0/cel_iterv/el30/el3v (normal: < 40)"]
TINY = [1e-170, 5e-324]
BATCH = [1, 9, 10, 15, 40]


def plan(tier):
    return {"shards": 8 if tier == "quick" else 16, "budget_s": 25 if tier == "quick" else 300,
            "required_counters": ["rows_checked", "loop_monitor_calls", "batch:1", "batch:40"]}


def around(v, ulps=(1, 2, 4), scale_ref=None):
    """v and its ulp neighbours"""
    out = [v]
    for k in ulps:
        a = b = v
        for _ in range(k):
            a = np.nextafter(a, np.inf)
            b = np.nextafter(b, -np.inf)
        out += [a, b]
    return out


def axis_values(rng, specials, size, n_extra=1):
    """special values (+ulp neighbours for a random subset), zero, tiny, far, random"""
    vals = [0.0] + TINY + [-TINY[0]]
    for s in specials:
        vals += around(s) if rng.random() < 0.6 else [s]
        vals += [s * (1 + 1e-12), s * (1 - 1e-9)]
    vals += [size * 10.0 ** rng.uniform(1, 12) * rng.choice([-1, 1]), size * 1e12]
    for _ in range(n_extra):
        vals.append(float(rng.normal() * size))
    return vals


def special_tags(vals_special, v):
    return any(v == s or abs(v - s) <= 8 * np.spacing(abs(s)) for s in vals_special)


def gen_points(rng, s):
    """list of (local point, n_special_coords)"""
    c = s["cls"]
    size = objs.size_of(s)
    pts = []

    def pick(lst, k):
        idx = rng.choice(len(lst), size=min(k, len(lst)), replace=False)
        return [lst[i] for i in idx]

    if c == "Cuboid":
        h = np.array(s["dimension"]) / 2
        ax = [axis_values(rng, [h[i], -h[i], 2 * h[i]], size) for i in range(3)]
        sp = [[0.0, h[i], -h[i]] + TINY for i in range(3)]
        for _ in range(60):
            p = [ax[i][int(rng.integers(len(ax[i])))] for i in range(3)]
            pts.append((p, sum(special_tags(sp[i], p[i]) for i in range(3))))
        combos = list(itertools.product(*[[h[i], -h[i], 0.0, 2 * h[i], -3 * h[i]] for i in range(3)]))
        for i in rng.choice(len(combos), size=24, replace=False):
            pts.append((list(combos[int(i)]), sum(special_tags(sp[k], combos[int(i)][k]) for k in range(3))))
    elif c in ("Cylinder", "CylinderSegment", "Circle", "Sphere"):
        if c == "Cylinder":
            r0, hh = s["dimension"][0] / 2, s["dimension"][1] / 2
            rs, zs, phis = [r0, 0.05 * r0, 2 * r0], [hh, -hh, 2 * hh], [0.0, np.pi / 2, np.pi, -np.pi / 2]
        elif c == "CylinderSegment":
            r1, r2, h, p1, p2 = s["dimension"]
            rs, zs = [r1, r2, (r1 + r2) / 2, 2 * r2], [h / 2, -h / 2, h]
            phis = [np.deg2rad(x) for x in (p1, p2, p1 + 180, p2 + 180, (p1 + p2) / 2, p1 - 360, p2 + 360)]
        elif c == "Circle":
            r0 = s["diameter"] / 2
            rs, zs, phis = [r0, 2 * r0, 0.5 * r0], [r0, -r0], [0.0, np.pi / 2, np.pi]
        else:
            r0 = s["diameter"] / 2
            rs, zs, phis = [r0, 2 * r0], [r0, -r0], [0.0, np.pi / 2]
        # exact coincidences of two or three special coordinates (edges, corners, their extensions): the random
        # product below reaches them with probability ~1e-3 per point only
        combos = [(r, z, ph) for r in rs + [0.0] for z in zs + [0.0] for ph in phis]
        for i in rng.choice(len(combos), size=min(24, len(combos)), replace=False):
            r, z, ph = combos[int(i)]
            q = [r * np.cos(ph), r * np.sin(ph), z]
            if rng.random() < 0.3:
                nb = G.ulp_neighbours(np.asarray(q, float))
                q = nb[int(rng.integers(len(nb)))].tolist()
            pts.append((q, 3))
        rv = [abs(x) for x in axis_values(rng, rs, size)]
        zv = axis_values(rng, zs, size)
        pv = phis + [float(rng.uniform(-np.pi, np.pi))]
        pv += [np.nextafter(x, np.inf) for x in phis[:2]] + [np.nextafter(x, -np.inf) for x in phis[:2]]
        for _ in range(60):
            r, z, ph = rv[int(rng.integers(len(rv)))], zv[int(rng.integers(len(zv)))], pv[int(rng.integers(len(pv)))]
            if rng.random() < 0.5 and c != "CylinderSegment":  # exact axis-aligned points (no trig rounding)
                k = int(rng.integers(0, 4))
                p = [[r, 0.0, z], [0.0, r, z], [-r, 0.0, z], [0.0, -r, z]][k]
            else:
                p = [r * np.cos(ph), r * np.sin(ph), z]
            nsp = special_tags(rs + [0.0] + TINY, r) + special_tags(zs + [0.0] + TINY, z)
            pts.append((p, int(nsp) + (1 if c == "CylinderSegment" and ph in phis else 0)))
        if c == "Sphere":
            for _ in range(20):
                d = rng.normal(size=3)
                d /= np.linalg.norm(d)
                r = rv[int(rng.integers(len(rv)))]
                pts.append(((d * r).tolist(), 1 + special_tags(rs, r)))
    elif c in ("Triangle", "Tetrahedron", "TriangularMesh", "Polyline"):
        v = np.array(s["vertices"], float)
        if c == "Polyline":
            segs = [(v[i], v[i + 1]) for i in range(len(v) - 1)]
            tris = []
        else:
            tris = [v] if c == "Triangle" else list(G.mesh_tris(s))
            segs = [(t[i], t[(i + 1) % 3]) for t in tris for i in range(3)]
        base = []
        for a, b in segs[:12]:
            for t in (0.0, 1.0, 0.5, 0.25, 2.0, -1.0, 1 + 1e-12, 1e12, -1e12, 1e-170, 3.0, 7.0, 100.0, -5.0, 1e4, -1e6, 1e8):
                base.append((a + t * (b - a), 2))
        for t in tris[:8]:
            n = np.cross(t[1] - t[0], t[2] - t[0])
            n = n / np.linalg.norm(n)
            cen = t.mean(axis=0)
            for q in (cen, 0.5 * t[0] + 0.25 * t[1] + 0.25 * t[2], t[0] + 1.5 * (t[1] - t[0]) + 1.5 * (t[2] - t[0])):
                base.append((q, 1))
                for eps in (1e-170, 5e-324, 1e-17, 1e-12, -1e-14):
                    base.append((q + eps * n, 2))
        if len(v):
            base.append((v.mean(axis=0), 1))
        for p, k in base:
            pts.append((np.asarray(p, float).tolist(), k))
            if rng.random() < 0.3:
                nb = G.ulp_neighbours(np.asarray(p, float))
                pts.append((nb[int(rng.integers(len(nb)))].tolist(), k))
    elif c == "Dipole":
        # (closer than ~1e-90 the true dipole field exceeds the floating-point range: not asked for)
        for p in ([0, 0, 0], [1e-80, 0, 0], [1e-60, 1e-170, 0], [0, 0, 1e-90], [1e12, 0, 0], [1e6, 1e6, 0],
                  [1e-8, 0, 0], [1, 1, 1], [0, 0, 1e11]):
            pts.append(([float(x) for x in p], 2))
    rng.shuffle(pts)
    return pts[:120]


def region(s, p, rel=1e-8):
    """structural tag of a local observer: which geometric coincidences it has with the source
    (mechanism key for known findings) - computed by the harness, never by the library"""
    p = np.asarray(p, float)
    size = objs.size_of(s) or 1.0
    c = s["cls"]
    t = rel * size
    tags = []
    if np.any((np.abs(p) < 1e-150) & (p != 0)):
        tags.append("denormal-coord")
    d = np.linalg.norm(p) / size
    if d >= 1e6:
        tags.append("far>=1e6")
    elif d >= 1e3:
        tags.append("far>=1e3")
    if c == "Cuboid":
        h = np.array(s["dimension"], float) / 2
        k = int(np.sum(np.abs(np.abs(p) - h) <= t))
        if k:
            tags.append(f"face-planes={k}")
    elif c in ("Cylinder", "CylinderSegment", "Circle"):
        r = float(np.hypot(p[0], p[1]))
        if r == 0:
            tags.append("axis")
        if c == "Cylinder":
            r0, z0 = s["dimension"][0] / 2, s["dimension"][1] / 2
            if abs(r - r0) <= t:
                tags.append("hull-cylinder")
            if abs(abs(p[2]) - z0) <= t:
                tags.append("base-plane")
        elif c == "Circle":
            r0 = s["diameter"] / 2
            if abs(r - r0) <= t:
                tags.append("wire-cylinder")
            if abs(p[2]) <= t:
                tags.append("loop-plane")
        else:
            r1, r2, hh, p1, p2 = s["dimension"]
            if min(abs(r - r1), abs(r - r2)) <= t:
                tags.append("r1/r2-cylinder")
            if abs(abs(p[2]) - hh / 2) <= t:
                tags.append("base-plane")
            if r > 0:
                ph = np.arctan2(p[1], p[0])
                for q in (p1, p2):
                    dq = np.mod(ph - np.deg2rad(q) + np.pi / 2, np.pi) - np.pi / 2  # angle to the full plane
                    if abs(r * np.sin(dq)) <= t:
                        tags.append("side-plane")
                        break
            # exactly on the magnet itself - face, edge, corner, apex - and not on an extension of these sets:
            # to 1e-14 r2, the margin the library itself grants for "numerical fluctuations (e.g. due to
            # rotations)"; between 1e-14 and its 1e-12 `close` tolerance the masks are inconsistent near edges and
            # corners, which is the near-coincidence mechanism of the known finding
            e = 1e-14 * r2
            ph = np.arctan2(p[1], p[0]) if r > 0 else 0.0
            a1, a2 = np.deg2rad(p1), np.deg2rad(p2)

            def ang_in(slack):
                if r <= e and r1 <= e:
                    return True
                return any(a1 - slack <= ph + k * 2 * np.pi <= a2 + slack for k in (-2, -1, 0, 1, 2))

            def ang_on():
                return r > e and any(abs(ph + k * 2 * np.pi - a) * r <= e for k in (-2, -1, 0, 1, 2) for a in (a1, a2))
            sl = e / max(r, e)
            r_in = r1 - e <= r <= r2 + e
            z_in = abs(p[2]) <= hh / 2 + e
            on = ((abs(abs(p[2]) - hh / 2) <= e and r_in and ang_in(sl))
                  or (min(abs(r - r1), abs(r - r2)) <= e and z_in and ang_in(sl))
                  or (ang_on() and r_in and z_in))
            if on:
                tags.append("on-surface")
    elif c in ("Triangle", "Tetrahedron", "TriangularMesh"):
        v = np.array(s["vertices"], float)
        tris = [v] if c == "Triangle" else list(G.mesh_tris(s))
        inplane = online = False
        tmax = 0.0
        for tr in tris:
            n = np.cross(tr[1] - tr[0], tr[2] - tr[0])
            n /= np.linalg.norm(n)
            if abs(np.dot(p - tr[0], n)) <= t:
                inplane = True
            for i in range(3):
                a, b = tr[i], tr[(i + 1) % 3]
                e = (b - a) / np.linalg.norm(b - a)
                if np.linalg.norm(np.cross(p - a, e)) <= t:
                    online = True
                    tmax = max(tmax, float(np.linalg.norm(p - a) / np.linalg.norm(b - a)))
        if np.min(np.linalg.norm(v - p, axis=1)) <= t:
            tags.append("near-vertex")
        elif online:
            tags.append("edge-line")
            if tmax >= 1e3:
                tags.append("edge-line-t>=1e3")   # farther than 1000 lengths of that edge along its line
        elif inplane:
            tags.append("face-plane")
    elif c == "Polyline":
        v = np.array(s["vertices"], float)
        for a, b in zip(v[:-1], v[1:]):
            if np.linalg.norm(b - a) > 0:
                e = (b - a) / np.linalg.norm(b - a)
                if np.linalg.norm(np.cross(p - a, e)) <= t:
                    tags.append("segment-line")
                    break
    elif c == "Sphere":
        if abs(np.linalg.norm(p) - s["diameter"] / 2) <= t:
            tags.append("surface")
    if c == "Dipole" and 0 < np.linalg.norm(p) < 1e-60:
        tags.append("r<1e-60")
    return tags if tags else ["generic"]


def batch_regions(s, P):
    return sorted({t for p in P for t in region(s, p)})


def documented_singular(s, P_local):
    """exact predicate, vectorised: True where the observer is a documented singular point"""
    P = np.atleast_2d(P_local)
    c = s["cls"]
    if c == "Dipole":
        return np.all(P == 0, axis=1)
    if c in ("Triangle", "Tetrahedron", "TriangularMesh"):
        v = np.array(s["vertices"], float)
        size = objs.size_of(s)
        d = np.min(np.linalg.norm(P[:, None, :] - v[None, :, :], axis=2), axis=1)
        return d <= 1e-14 * size  # at a vertex up to a few ulp (generic poses round)
    return np.zeros(len(P), bool)


def gen_case(rng):
    cls = str(rng.choice(objs.SOURCE_CLASSES))
    s = objs.rand_source(rng, cls, path_len=1)
    ident = rng.random() < 0.6
    if ident:
        s["position"], s["orientation"] = [[0.0, 0.0, 0.0]], [[0.0, 0.0, 0.0, 1.0]]
    u = rng.random()
    if u < 0.12:  # zero excitation
        for k in ("polarization", "moment"):
            if k in s:
                s[k] = [0.0, 0.0, 0.0]
        if "current" in s:
            s["current"] = 0.0
    elif u < 0.2:  # extreme excitation
        sc = 10.0 ** rng.choice([-12, -6, 6, 12])
        for k in ("polarization", "moment"):
            if k in s:
                s[k] = (np.array(s[k]) * sc).tolist()
        if "current" in s:
            s["current"] *= sc
    elif u < 0.3 and "polarization" in s:  # axis-aligned polarization (separate branches in cylinder)
        k = int(rng.integers(0, 3))
        p = [0.0, 0.0, 0.0]
        p[k] = 1.0
        s["polarization"] = p
    if cls in ("Sphere", "Circle") and rng.random() < 0.08:
        s["diameter"] = 0.0
    if cls in ("Polyline", "Triangle") and rng.random() < 0.4:
        # vertices on a coarse lattice near the origin (axis-parallel and diagonal edges): points on the extension
        # of an edge are then EXACTLY collinear in floating point, however far away
        k = len(s["vertices"]) if cls == "Polyline" else 3
        while True:
            v = rng.integers(-2, 3, size=(k, 3)).astype(float) * float(rng.choice([1.0, 0.5, 0.25]))
            if cls == "Triangle":
                if np.linalg.norm(np.cross(v[1] - v[0], v[2] - v[0])) > 0:
                    break
            elif np.all(np.linalg.norm(np.diff(v, axis=0), axis=1) > 0):
                break
        s["vertices"] = v.tolist()
    pts = gen_points(rng, s)
    nb = int(rng.choice(BATCH))
    pts = pts[:nb] if len(pts) >= nb else (pts * (nb // max(1, len(pts)) + 1))[:nb]
    local = [p for p, _ in pts]
    return {"source": s, "local": local, "nspecial": [int(k) for _, k in pts], "identity": ident,
            "functional": bool(rng.random() < 0.15 and cls in ("Cuboid", "Cylinder", "Sphere", "Circle", "Dipole"))}


def check_case(ctx, case):
    import magpylib as magpy

    s = case["source"]
    Pl = np.array(case["local"], float)
    Pg = Pl if case["identity"] else G.to_global(s, Pl)
    if not case["identity"]:
        Pl = G.to_local(s, Pg)  # what the library can see: the pose transformation rounds
    sing = documented_singular(s, Pl)
    n = len(Pl)
    ctx.count(f"batch:{n}")
    for F in "BHJM":
        before = dict(ctx.safety.max_backedges) if getattr(ctx, "safety", None) else {}
        try:
            with quiet(), np.errstate(all="ignore"):
                if case["functional"]:
                    kw = {k: s[k] for k in ("dimension", "diameter", "polarization", "current", "moment") if k in s}
                    if s["cls"] == "Cuboid" and ctx.rng.random() < 0.5:
                        kw["dimension"] = [0.0] + list(kw["dimension"][1:])
                    out = getattr(magpy, "get" + F)(s["cls"], Pg, position=s["position"][0],
                                                    orientation=R.from_quat(s["orientation"][0]), squeeze=False, **kw)
                else:
                    src = objs.build(s)
                    out = getattr(magpy, "get" + F)(src, Pg, squeeze=False)
            out = np.asarray(out)
        except Exception as e:
            # locate the culprit rows by evaluating every row alone (mechanism key = that row's tags)
            kind = "non-termination" if isinstance(e, NonTermination) else "exception"
            info = exc_info(e)
            ctx.evaluated({"source": s, "field": F, "local": case["local"]}, nontrivial=True, n=n)
            culprits = 0
            if not case["functional"]:
                for i in range(n):
                    try:
                        with quiet(), np.errstate(all="ignore"):
                            # alone, and replicated so that every scalar/vector switch of the special
                            # functions (n < 10, n < 15) and the multi-row paths are exercised
                            for k in (1, 2, 3, 9, 12, 16):
                                getattr(magpy, "get" + F)(objs.build(s), np.repeat(Pg[i:i + 1], k, axis=0), squeeze=False)
                    except Exception as e1:
                        culprits += 1
                        ctx.violation({"kind": "raises-or-hangs", "cls": s["cls"], "tags": region(s, Pl[i])},
                                      {**case, "local": [case["local"][i]], "nspecial": [case["nspecial"][i]]},
                                      {"batch_error": info, "row_error": exc_info(e1), "local": case["local"][i]})
            if culprits == 0:
                ctx.violation({"kind": "raises-or-hangs", "cls": s["cls"], "tags": ["batch-only"], "what": kind}, case, info)
            continue
        ctx.count("loop_monitor_calls")
        flat = out.reshape(-1, 3) if out.size else out
        want = (1, 1, 1, n, 3) if not case["functional"] else (n, 3)
        if out.shape != want and not (case["functional"] and out.shape == (n, 3)):
            ctx.violation({"kind": "shape", "cls": s["cls"]}, case, {"got": out.shape, "want": want})
            continue
        for i in range(n):
            ctx.count("rows_checked")
            ctx.evaluated({"source": s, "field": F, "p": case["local"][i]}, nontrivial=case["nspecial"][i] >= 2)
            if sing[i]:
                ctx.count("documented_singular_rows")
                continue
            if not np.all(np.isfinite(flat[i])):
                ctx.violation({"kind": "non-finite", "cls": s["cls"], "field": "BH" if F in "BH" else "JM",
                               "tags": region(s, Pl[i])},
                              case, {"i": i, "local": case["local"][i], "out": flat[i], "field": F})


def run_shard(ctx):
    while not ctx.expired():
        check_case(ctx, gen_case(ctx.rng))


def replay(ctx, case):
    check_case(ctx, case)
