"""C20 - style settings resolve by precedence and never leak.

Reference-model monitor: a small resolver over flat {leaf: value} dictionaries
(show kwarg > object style > family default > base default, leaf by leaf) is compared with the
effective style observed at the point of use: the style objects that
get_flatten_objects_properties_recursive hands to the trace generators (fast path, every case)
and the style seen by get_generic_traces3D during a real show(backend='plotly',
return_fig=True) (sampled).  Leaves are enumerated from the running tree; for each leaf a pair
of settable, distinguishable values is found by trying a candidate pool against the real setter.
Also: notations are equivalent and the last assignment wins, invalid names/values are rejected,
styles of different objects and of copies are independent, show() leaves object styles and
defaults untouched, defaults.reset() restores every default (pristine snapshot from a fresh
subprocess).
"""
from __future__ import annotations

import itertools
import json
import subprocess
import sys

import numpy as np

from vfw import digest as D
from vfw.util import quiet, exc_info

LEVEL = "exploration"
RULE = ("grid leaf x (which of {show kwarg, object, family default, base default} carry a value) x notation "
        "{ctor underscore kwarg, ctor nested dict, attribute assignment, update(underscore), update(nested dict)} "
        "for one object per style family; random histories of 2-6 assignments through mixed notations followed by "
        "reset(); invalid names/values; non-trivial = at least two levels carry competing values or a history has "
        ">= 2 assignments; distinct by sha1 of the case")
ASSUMPTIONS = ["leaves and families are enumerated from the running tree; 'label' and 'color' are auto-filled when "
               "unset at every level and are then not judged",
               "where two default families both define a leaf (Triangle, TriangularMesh: 'magnet' and the class specific "
               "family) the class specific family is 'the object's family' and wins"]
NOTATIONS = ["ctor_kw", "ctor_dict", "attr", "update_kw", "update_dict"]
POOL = [0.3, 0.7, 2, 5, 1, "red", "blue", "#112233", "solid", "dashed", "dotted", "o", "x", "s", "+", "arrow",
        "color", "arrow+color", "auto", "tip", "tail", "middle", "cone", "arrow3d", "bicolor", "tricolor", "tricycle", "scaled",
        "absolute", "txt_one", "txt_two", "head", "mesh", "line", "marker", -1, [0, 1], 10, 0.05, "-", "--", ":",
        True, False]  # bools last: numeric leaves accept them as numbers, which is not what their documentation means


def plan(tier):
    return {"shards": 8 if tier == "quick" else 16, "budget_s": 30 if tier == "quick" else 420,
            "required_counters": ["precedence_cases", "notation_cases", "history_cases", "invalid_cases",
                                  "reset_checks", "show_observations", "leak_checks", "shared_dict_cases", "two_family_cases", "style_copy_cases", "failed_show_raised"]}


# ------------------------------------------------------------------ helpers on the running tree
def make_obj(kind, **kw):
    import magpylib as magpy

    with quiet():
        if kind == "Cuboid":
            return magpy.magnet.Cuboid(dimension=(1, 2, 3), polarization=(0, 0, 1), **kw)
        if kind == "Circle":
            return magpy.current.Circle(diameter=1, current=1, **kw)
        if kind == "Sensor":
            return magpy.Sensor(pixel=[(0, 0, 0), (0.1, 0, 0)], **kw)
        if kind == "Dipole":
            return magpy.misc.Dipole(moment=(1, 2, 3), **kw)
        if kind == "Triangle":
            return magpy.misc.Triangle(vertices=[(0, 0, 0), (1, 0, 0), (0, 1, 0)], polarization=(0, 0, 1), **kw)
        if kind == "TriangularMesh":
            return magpy.magnet.TriangularMesh(vertices=[(0, 0, 0), (1, 0, 0), (0, 1, 0), (0, 0, 1)],
                                               faces=[(0, 2, 1), (0, 1, 3), (1, 2, 3), (0, 3, 2)], polarization=(0, 0, 1), **kw)
        if kind == "CustomSource":
            return magpy.misc.CustomSource(**kw)
        if kind == "Collection":
            return magpy.Collection(magpy.Sensor(), **kw)
    raise ValueError(kind)


KINDS = ["Cuboid", "Circle", "Sensor", "Dipole", "Triangle", "TriangularMesh", "CustomSource", "Collection"]


def nested(leaf, v):
    d = cur = {}
    parts = leaf.split("_")
    for p in parts[:-1]:
        cur[p] = {}
        cur = cur[p]
    cur[parts[-1]] = v
    return d


def set_attr(style, leaf, v):
    parts = leaf.split("_")
    o = style
    for p in parts[:-1]:
        o = getattr(o, p)
    setattr(o, parts[-1], v)


def flat(style):
    return style.as_dict(flatten=True, separator="_")


def leaf_values(ctx, kind):
    """two accepted, distinguishable values per leaf of this kind's style class (cached per shard)"""
    cache = ctx.__dict__.setdefault("_leafvals", {})
    if kind in cache:
        return cache[kind]
    out = {}
    o = make_obj(kind)
    for leaf in flat(o.style):
        if leaf in ("model3d_data",):
            continue
        good = []
        for cand in POOL:
            try:
                st = o._style_class()
                with quiet():
                    set_attr(st, leaf, cand)
                    back = flat(st)[leaf]
                if back == cand and type(back) == type(cand) and not any(back == g and type(g) == type(back) for g in good):
                    good.append(cand)
            except Exception:
                continue
            if len(good) >= 4:
                break
        if len(good) >= 2:
            out[leaf] = good
        else:
            ctx.count("leaf_without_value_pair:" + kind + ":" + leaf)
    cache[kind] = out
    return out


def families_with_leaf(obj, leaf):
    import magpylib as magpy
    from magpylib._src.style import get_families

    ds = magpy.defaults.display.style
    out = []
    for f in get_families(obj):
        fs = getattr(ds, f, None)
        if fs is not None and leaf in flat(fs):
            out.append(f)
    return out


def showable(leaf):
    import magpylib as magpy

    from magpylib._src.defaults.defaults_values import DEFAULTS

    ds = DEFAULTS["display"]["style"]  # the documented global style properties are those with a default
    return any(leaf.split("_")[0] in fam for fam in ds.values() if isinstance(fam, dict))


def effective(obj, show_kw):
    """the style the trace generators receive for obj"""
    import magpylib as magpy
    from magpylib._src.display.traces_utility import get_flatten_objects_properties_recursive as G

    props = G(obj, style_kwargs=dict(show_kw), colorsequence=magpy.defaults.display.colorsequence)
    return flat(props[obj]["style"])


def show_effective(obj, show_kw):
    """effective style seen by get_generic_traces3D during a real show()"""
    import magpylib as magpy
    from magpylib._src.display import traces_generic as TG

    seen = {}
    orig = TG.get_generic_traces3D

    def wrap(input_obj, *a, **k):
        if input_obj is obj and "style" not in seen:
            seen["style"] = flat(input_obj.style)
        return orig(input_obj, *a, **k)

    TG.get_generic_traces3D = wrap
    try:
        with quiet():
            magpy.show(obj, backend="plotly", return_fig=True, **show_kw)
    finally:
        TG.get_generic_traces3D = orig
    return seen.get("style")


def pristine_defaults():
    code = ("import json,magpylib as m;print('PRISTINE'+json.dumps(m.defaults.as_dict(),default=str,sort_keys=True))")
    import os

    out = subprocess.run([sys.executable, "-c", code], capture_output=True, text=True, timeout=120,
                         env={**os.environ, "MPLBACKEND": "Agg"}).stdout
    line = [l for l in out.splitlines() if l.startswith("PRISTINE")][0]
    return line[len("PRISTINE"):]


def defaults_json():
    import magpylib as magpy

    return json.dumps(magpy.defaults.as_dict(), default=str, sort_keys=True)


# ------------------------------------------------------------------ precedence case
def run_precedence(ctx, case):
    import magpylib as magpy

    kind, leaf, levels, notation = case["kind"], case["leaf"], case["levels"], case["notation"]
    vals = case["values"]  # level -> value
    magpy.defaults.reset()
    try:
        probe = make_obj(kind)
        fams = families_with_leaf(probe, leaf)
        base_has = leaf in flat(magpy.defaults.display.style.base)
        pristine_eff = effective(probe, {})[leaf]
        # defaults
        if "base" in levels and base_has:
            magpy.defaults.display.style.base.update(**{leaf: vals["base"]})
        specific = [f for f in fams if f == kind.lower()]
        generic = [f for f in fams if f != kind.lower()]
        if "family" in levels and fams:
            for f in fams:
                getattr(magpy.defaults.display.style, f).update(**{leaf: vals["family"]})
            if specific and generic and "family_generic" in vals:
                # the object's own (class specific) family and a generic one (magnet) both define the leaf:
                # give them different values - the defaults "of the object's family" are the specific ones
                for f in generic:
                    getattr(magpy.defaults.display.style, f).update(**{leaf: vals["family_generic"]})
                ctx.count("two_family_cases")
        # object value through the chosen notation
        kw = {}
        if "object" in levels:
            if notation == "ctor_kw":
                kw = {"style_" + leaf: vals["object"]}
            elif notation == "ctor_dict":
                kw = {"style": nested(leaf, vals["object"])}
        with quiet():
            obj = make_obj(kind, **kw)
            if "object" in levels:
                if notation == "attr":
                    set_attr(obj.style, leaf, vals["object"])
                elif notation == "update_kw":
                    obj.style.update(**{leaf: vals["object"]})
                elif notation == "update_dict":
                    obj.style.update(nested(leaf, vals["object"]))
        if "show" in levels and not showable(leaf):
            return  # not a global style property (e.g. label): show kwargs only take properties found in the defaults
        show_kw = {"style_" + leaf: vals["show"]} if "show" in levels else {}
        obj_before = D.digest(obj)
        def_before = defaults_json()
        with quiet():
            eff = effective(obj, show_kw)[leaf]
        # model
        if "show" in levels:
            want = [vals["show"]]
        elif "object" in levels:
            want = [vals["object"]]
        elif "family" in levels and fams:
            want = [vals["family"]]
        elif "base" in levels and base_has:
            # a family default that is not None shadows the base default
            fam_vals = [flat(getattr(magpy.defaults.display.style, f))[leaf] for f in fams]
            fam_vals = [v for v in fam_vals if v is not None]
            want = fam_vals if fam_vals else [vals["base"]]
        else:
            want = [pristine_eff]
        ctx.count("precedence_cases")
        ctx.count("notation_cases")
        ctx.evaluated(case, nontrivial=len(levels) >= 2)
        key = {"kind": "precedence", "cls": kind, "levels": "+".join(sorted(levels)), "notation": notation if "object" in levels else "-"}
        auto = leaf in ("label", "color") and all(w is None for w in want)
        if not auto and not any(eff == w and type(eff) == type(w) for w in want):
            ctx.violation({**key, "leaf": leaf, "object_level_set": "object" in levels or "show" in levels}, case,
                          {"effective": eff, "expected_one_of": want, "leaf": leaf})
            return
        # no leaks: computing the effective style changed neither the object nor the defaults
        if D.digest(obj) != obj_before or defaults_json() != def_before:
            ctx.violation({"kind": "effective-style-computation-mutates", "cls": kind}, case,
                          {"obj": D.diff(obj_before, D.digest(obj))})
            return
        if case.get("real_show"):
            with quiet():
                se = show_effective(obj, show_kw)
            ctx.count("show_observations")
            if se is None:
                ctx.inconclusive_case("show() did not reach get_generic_traces3D", case)
            elif not auto and not any(se[leaf] == w and type(se[leaf]) == type(w) for w in want):
                ctx.violation({**key, "kind": "precedence-in-show", "leaf": leaf, "object_level_set": "object" in levels or "show" in levels}, case,
                              {"effective": se[leaf], "expected_one_of": want, "leaf": leaf})
                return
            if D.digest(obj) != obj_before or defaults_json() != def_before:
                ctx.violation({"kind": "show-mutates-style-or-defaults", "cls": kind}, case,
                              {"obj": D.diff(obj_before, D.digest(obj))})
    finally:
        magpy.defaults.reset()


# ------------------------------------------------------------------ history case
def run_history(ctx, case):
    """assignments to the same leaf of one object through different notations; last wins; a second
    object and a copy are unaffected; reset() restores the defaults"""
    import magpylib as magpy

    kind, leaf = case["kind"], case["leaf"]
    magpy.defaults.reset()
    try:
        with quiet():
            obj, other = make_obj(kind), make_obj(kind)
            cp = obj.copy()
            other_before, cp_before = flat(other.style), {k: v for k, v in flat(cp.style).items() if k != "label"}
            last = None
            for step in case["steps"]:
                v, how = step["value"], step["how"]
                if how == "attr":
                    set_attr(obj.style, leaf, v)
                elif how == "update_kw":
                    obj.style.update(**{leaf: v})
                elif how == "update_dict":
                    obj.style.update(nested(leaf, v))
                elif how == "style_setter":
                    obj.style = nested(leaf, v)
                elif how == "default_family":
                    for f in families_with_leaf(obj, leaf):
                        getattr(magpy.defaults.display.style, f).update(**{leaf: v})
                    continue
                last = v
        ctx.count("history_cases")
        ctx.evaluated(case, nontrivial=len(case["steps"]) >= 2)
        got = flat(obj.style)[leaf]
        if last is not None and not (got == last and type(got) == type(last)):
            ctx.violation({"kind": "last-assignment-does-not-win", "cls": kind, "leaf_group": leaf.split("_")[0],
                           "hows": "+".join(s["how"] for s in case["steps"])}, case, {"got": got, "want": last, "leaf": leaf})
            return
        ctx.count("leak_checks")
        if flat(other.style) != other_before:
            ctx.violation({"kind": "style-leaks-to-other-object", "cls": kind}, case, {"leaf": leaf})
            return
        if {k: v for k, v in flat(cp.style).items() if k != "label"} != cp_before:
            ctx.violation({"kind": "style-leaks-to-copy", "cls": kind}, case, {"leaf": leaf})
            return
        magpy.defaults.reset()
        ctx.count("reset_checks")
        pr = ctx.__dict__.get("_pristine")
        now = defaults_json()
        if now != pr:
            a, b = json.loads(pr), json.loads(now)
            dd = D.diff(D._canon(a), D._canon(b)) or ""
            path = "/".join(x for x in dd.split(":")[0].split("/") if x and not x.isdigit())
            ctx.violation({"kind": "reset-does-not-restore", "default": path}, case, {"diff": dd})
            # start the next case from a clean process state so one stuck default is reported once per mechanism
            import importlib

            try:
                magpy.defaults.display.style = type(magpy.defaults.display.style)()
                magpy.defaults.reset()
            except Exception:
                pass
    finally:
        magpy.defaults.reset()


def run_shared_dict(ctx, case):
    """one dict object used as style= for two objects: each keeps the value, the caller's dict is untouched"""
    import copy as _copy

    import magpylib as magpy

    kind, leaf, v = case["kind"], case["leaf"], case["value"]
    magpy.defaults.reset()
    try:
        d = nested(leaf, v)
        d0 = _copy.deepcopy(d)
        with quiet():
            o1 = make_obj(kind, style=d)
            o2 = make_obj(kind, style=d)
            order = case["access"]
            if order == "first":
                o1.style
            elif order == "copy":
                o1.copy()
            elif order == "show":
                effective(o1, {})
            got2 = flat(o2.style)[leaf]
            got1 = flat(o1.style)[leaf]
        ctx.count("shared_dict_cases")
        ctx.count("leak_checks")
        ctx.evaluated(case, nontrivial=True)
        if d != d0:
            ctx.violation({"kind": "caller-style-dict-modified", "cls": kind, "access": order}, case, {"dict_after": d})
            return
        for name, g in (("first", got1), ("second", got2)):
            if not (g == v and type(g) == type(v)):
                ctx.violation({"kind": "shared-style-dict-lost", "cls": kind, "which": name, "access": order}, case,
                              {"got": g, "want": v, "leaf": leaf})
                return
    finally:
        magpy.defaults.reset()


def run_style_copy(ctx, case):
    """style.copy() of an object's style / of the default style tree: writing a leaf (attribute notation, through
    the nested classes) on one side never shows on the other"""
    import magpylib as magpy

    kind, leaf, v = case["kind"], case["leaf"], case["value"]
    magpy.defaults.reset()
    try:
        with quiet():
            obj = make_obj(kind)
            if case["of"] == "object":
                orig = obj.style
            else:
                fams = families_with_leaf(obj, leaf) or ["base"]
                orig = getattr(magpy.defaults.display.style, fams[0])
            cp = orig.copy()
            a, b = (cp, orig) if case["direction"] == "copy" else (orig, cp)
            before = flat(b)
            dbefore = defaults_json()
            try:
                set_attr(a, leaf, v) if case["how"] == "attr" else a.update(**{leaf: v})
            except Exception as e:
                ctx.count("style_copy_write_rejected")
                return
            after = flat(b)
        ctx.count("style_copy_cases")
        ctx.count("leak_checks")
        ctx.evaluated(case, nontrivial=True)
        if after != before:
            ch = [k for k in after if after[k] != before.get(k)]
            ctx.violation({"kind": "style-copy-not-independent", "of": case["of"], "how": case["how"],
                           "nested": "_" in leaf}, case, {"changed": ch[:5], "direction": case["direction"]})
            return
        if case["of"] == "default" and case["direction"] == "copy" and defaults_json() != dbefore:
            ctx.violation({"kind": "style-copy-write-changed-defaults"}, case, {})
    finally:
        magpy.defaults.reset()


def run_failed_show(ctx, case):
    """no leak from a show() that dies while the traces are generated: the values given in that call, the colour
    cycle and the resolved defaults must not stay on the object; later default changes still reach it"""
    import magpylib as magpy

    kind, leaf, v = case["kind"], case["leaf"], case["value"]
    magpy.defaults.reset()
    try:
        state = {"ready": True}

        def trace_kwargs():
            kw = {"x": [0, 1], "y": [0, 1]}
            if state["ready"]:
                kw["z"] = [0, 1]
            return kw
        with quiet():
            obj = make_obj(kind)
            obj.style.model3d.add_trace(backend="generic", constructor="scatter3d", kwargs=trace_kwargs)
        state["ready"] = False
        before = flat(obj.style)
        dbefore = defaults_json()
        raised = None
        try:
            with quiet():
                magpy.show(obj, backend="plotly", return_fig=True, **({"style_" + leaf: v} if showable(leaf) else {}))
        except Exception as e:
            raised = e
        ctx.count("failed_show_cases")
        ctx.count("failed_show_raised" if raised is not None else "failed_show_did_not_fail")
        ctx.count("leak_checks")
        ctx.evaluated(case, nontrivial=True)
        after = flat(obj.style)
        if after != before:
            ch = [k for k in after if after.get(k) != before.get(k)]
            ctx.violation({"kind": "failed-show-leaked-into-object-style", "cls": kind}, case, {"changed": ch[:8]})
            return
        if defaults_json() != dbefore:
            ctx.violation({"kind": "failed-show-changed-defaults", "cls": kind}, case, {})
    finally:
        magpy.defaults.reset()


def run_invalid(ctx, case):
    import magpylib as magpy

    kind, what = case["kind"], case["what"]
    magpy.defaults.reset()
    try:
        with quiet():
            obj = make_obj(kind)
        before = D.digest(obj)
        dbefore = defaults_json()
        leaf, v = case["leaf"], case["value"]
        raised = None
        try:
            with quiet():
                if what == "attr":
                    set_attr(obj.style, leaf, v)
                elif what == "update_kw":
                    obj.style.update(**{leaf: v})
                elif what == "update_dict":
                    obj.style.update(nested(leaf, v))
                elif what == "ctor_kw":
                    make_obj(kind, **{"style_" + leaf: v}).style
                elif what == "ctor_dict":
                    make_obj(kind, style=nested(leaf, v)).style
                elif what == "show_kw":
                    effective(obj, {"style_" + leaf: v})
                elif what == "show_dict":
                    effective(obj, {"style": nested(leaf, v)})
                elif what == "default":
                    for f in (families_with_leaf(obj, leaf) or ["base"]):
                        getattr(magpy.defaults.display.style, f).update(**{leaf: v})
        except Exception as e:
            raised = e
        ctx.count("invalid_cases")
        ctx.count("invalid_reject_type:" + (type(raised).__name__ if raised else "ACCEPTED"))
        ctx.evaluated(case, nontrivial=True)
        if raised is None:
            ctx.violation({"kind": "invalid-style-accepted", "cls": kind, "what": what, "bad": case["bad"],
                           "leaf_group": leaf.split("_")[0]}, case, {"leaf": leaf, "value": v})
            return
        if what in ("attr", "update_kw", "update_dict", "show_kw", "show_dict") and D.digest(obj) != before:
            ctx.violation({"kind": "rejected-style-changed-object", "cls": kind, "what": what}, case,
                          {"diff": D.diff(before, D.digest(obj))})
        if what != "default" and defaults_json() != dbefore:
            ctx.violation({"kind": "rejected-style-changed-defaults", "cls": kind, "what": what}, case, {})
    finally:
        magpy.defaults.reset()


def wrong_kind_value(v, leaf=""):
    if leaf.split("_")[-1] in ("label", "text"):
        return None  # free text: any value is converted with str(), nothing is clearly excluded
    if isinstance(v, bool):
        return "yes"
    if isinstance(v, (int, float)):
        return "abc"
    if isinstance(v, str):
        return 12345.678 if v not in ("txt_one", "txt_two") else None
    return "zzz"


# ------------------------------------------------------------------ driver
def grid(ctx):
    cases = []
    lv = ["show", "object", "family", "base"]
    subsets = [s for r in range(1, 5) for s in itertools.combinations(lv, r)]
    for kind in KINDS:
        vals = leaf_values(ctx, kind)
        for leaf, good in vals.items():
            for sub in subsets:
                for notation in (NOTATIONS if "object" in sub else ["attr"]):
                    cases.append((kind, leaf, sub, notation))
    return cases


def assign_values(good, levels, flip):
    """winner gets one value, every lower level another one"""
    order = [l for l in ["show", "object", "family", "base"] if l in levels]
    a, b = (good[0], good[1]) if not flip else (good[1], good[0])
    out = {}
    for i, l in enumerate(order):
        out[l] = a if i == 0 else (b if len(good) < 3 else good[(i + (1 if flip else 0)) % len(good)] if good[(i + (1 if flip else 0)) % len(good)] != a else b)
    if "family" in out:
        out["family_generic"] = next((g for g in good if not (g == out["family"] and type(g) == type(out["family"]))), None)
        if out["family_generic"] is None:
            del out["family_generic"]
    return out


def run_shard(ctx):
    import magpylib as magpy

    rng = ctx.rng
    ctx._pristine = pristine_defaults()
    magpy.defaults.reset()
    if defaults_json() != ctx._pristine:
        ctx.violation({"kind": "reset-does-not-restore", "leaf_group": "at-start"}, {}, {})
    g = grid(ctx)
    ctx.count("grid_size", len(g) if ctx.shard == 0 else 0)
    mine = g[ctx.shard::ctx.nshards]
    order = rng.permutation(len(mine))
    n_grid = 0
    for j, i in enumerate(order):
        if ctx.time_left() < ctx.budget_s * 0.3:
            break
        kind, leaf, sub, notation = mine[i]
        good = leaf_values(ctx, kind)[leaf]
        case = {"type": "precedence", "kind": kind, "leaf": leaf, "levels": list(sub), "notation": notation,
                "values": assign_values(good, sub, bool(rng.integers(0, 2))), "real_show": bool(j % 40 == 0)}
        run_precedence(ctx, case)
        n_grid += 1
    if n_grid == len(mine):
        ctx.count("grid_slices_completed")
    while not ctx.expired():
        kind = KINDS[int(rng.integers(0, len(KINDS)))]
        vals = leaf_values(ctx, kind)
        leaf = list(vals)[int(rng.integers(0, len(vals)))]
        good = vals[leaf]
        if rng.random() < 0.06:
            run_failed_show(ctx, {"type": "failed_show", "kind": kind, "leaf": leaf, "value": good[int(rng.integers(0, len(good)))]})
        elif rng.random() < 0.1:
            run_style_copy(ctx, {"type": "style_copy", "kind": kind, "leaf": leaf, "value": good[int(rng.integers(0, len(good)))],
                                 "of": str(rng.choice(["object", "default"])), "direction": str(rng.choice(["copy", "orig"])),
                                 "how": str(rng.choice(["attr", "update_kw"]))})
        elif rng.random() < 0.12:
            run_shared_dict(ctx, {"type": "shared_dict", "kind": kind, "leaf": leaf, "value": good[0],
                                  "access": str(rng.choice(["first", "copy", "show", "none"]))})
        elif rng.random() < 0.6:
            steps = [{"value": good[int(rng.integers(0, len(good)))],
                      "how": str(rng.choice(["attr", "update_kw", "update_dict", "style_setter", "default_family"],
                                            p=[0.3, 0.25, 0.2, 0.1, 0.15]))} for _ in range(int(rng.integers(2, 7)))]
            run_history(ctx, {"type": "history", "kind": kind, "leaf": leaf, "steps": steps})
        else:
            bad = str(rng.choice(["unknown_name", "wrong_kind"]))
            what = str(rng.choice(["attr", "update_kw", "update_dict", "ctor_kw", "ctor_dict", "show_kw", "show_dict", "default"]))
            if bad == "unknown_name":
                parts = leaf.split("_")
                parts[-1] = parts[-1] + "zz" if rng.random() < 0.5 else "nosuchleaf"
                case = {"type": "invalid", "kind": kind, "what": what, "bad": bad, "leaf": "_".join(parts), "value": good[0]}
                if what in ("show_kw", "show_dict") and len(parts) > 1 and rng.random() < 0.3:
                    # show kwargs apply "to all objects matching the given style properties": a family the object's
                    # style does not have is skipped by design, so an unknown family name is judged at level 0 only;
                    # an unknown sub-leaf of a family the object HAS (the other 70 %) must be rejected
                    case["leaf"] = "nosuchgroup_" + case["leaf"]
            else:
                wv = wrong_kind_value(good[0], leaf)
                if wv is None:
                    continue
                case = {"type": "invalid", "kind": kind, "what": what, "bad": bad, "leaf": leaf, "value": wv}
            run_invalid(ctx, case)


def replay(ctx, case):
    ctx._pristine = pristine_defaults()
    {"precedence": run_precedence, "history": run_history, "invalid": run_invalid, "shared_dict": run_shared_dict,
     "style_copy": run_style_copy, "failed_show": run_failed_show}[case["type"]](ctx, case)
