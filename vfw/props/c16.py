"""C16 - TriangularMesh status checks are right and orientation is normalised.

Monitor over a mesh zoo whose ground truth is known by construction (vfw.oracles.meshes):
convex hulls, boxes, n-gon prisms, extruded non-convex polygons (L, U, T, star), a genus-1 torus,
disjoint unions, interpenetrating pairs, meshes with faces deleted - under random face orders,
winding flips and vertex renumberings.  Oracles: check_open / check_disconnected /
check_selfintersecting vs the truth; after the default reorientation every connected component of
a closed mesh must be consistently wound with positive signed volume (independent edge-
incidence / union-find / signed-volume checkers); getH outside and getB inside must equal
those of the canonical (outward, canonical order) mesh.
"""
from __future__ import annotations

import itertools

import numpy as np

from vfw.oracles import meshes as M
from vfw.oracles import geometry as G
from vfw.util import quiet, exc_info

LEVEL = "exploration"
RULE = ("mesh zoo x (face permutation, subset of flipped faces, cyclic rotation of each face, vertex renumbering); "
        "exhaustive for the tetrahedron: 24 face orders x 16 winding subsets x 24 vertex renumberings; sizes 1 and "
        "1e-3, thin bodies down to aspect 1e-3 (quick) / 1e-6 (thorough); non-trivial = non-convex, genus 1, "
        "multi-part, open, or at least one flipped face; distinct by sha1 of (mesh kind, seed, transformation)")
ASSUMPTIONS = ["configurations whose truth is a matter of convention (parts touching exactly in a vertex, edge or "
               "face) are not generated: overlaps and gaps are >= 5 % of the size"]


def plan(tier):
    return {"shards": 8 if tier == "quick" else 16, "budget_s": 30 if tier == "quick" else 420,
            "required_counters": ["meshes_checked", "status_checks", "orientation_checks", "field_checks",
                                  "tetra_exhaustive_cases", "kind:torus", "kind:interpenetrating", "kind:spike", "kind:open",
                                  "kind:small_parts", "kind:flat_bipyramid",
                                  "route:late", "route:late_touched", "route:shown"],
            "exhaustive": "tetrahedron: all 24 face orders x 16 winding subsets x 24 vertex renumberings (thorough, "
                          "when counter tetra_slices_completed == shards; quick: a 1/8 stride)"}


def base_mesh(rng, kind, thin):
    truth = {"open": False, "disconnected": False, "selfintersecting": False}
    if kind == "hull":
        V, F = M.convex_hull(rng)
    elif kind == "box":
        V, F = M.box(10 ** rng.uniform(-0.5, 0.5, 3))
    elif kind == "prism":
        V, F = M.prism(int(rng.integers(3, 9)), h=float(10 ** rng.uniform(-0.5, 0.5)))
    elif kind in M.SHAPES:
        V, F = M.extrude(M.SHAPES[kind], h=float(10 ** rng.uniform(-0.5, 0.5)))
    elif kind == "torus":
        V, F = M.torus(int(rng.integers(5, 10)), int(rng.integers(4, 8)))
    elif kind == "plate":
        V, F = M.box((1.0, 1.3, thin))
    elif kind == "two_parts":
        A, B = M.box((1, 1, 1)), M.convex_hull(rng, 7)
        VB = B[0] - B[0].mean(axis=0)
        VB = VB / np.abs(VB).max() + np.array([4.0, 0.3, 0.1])  # extent <= 1 about its centre: gap to the box >= 2.5
        V, F = M.union([A, (VB, B[1])])
        truth["disconnected"] = True
    elif kind == "interpenetrating":
        A, B = M.box((1, 1, 1)), M.box((1, 1, 1), c=(0.45, 0.3, 0.25))
        V, F = M.union([A, B])
        truth["disconnected"] = True
        truth["selfintersecting"] = True
    elif kind == "spike":
        # one-sided penetration: the tip of a slender tetrahedron pokes through the middle of a box face;
        # no edge of the box meets the spike, only the spike's edges pierce one box face
        A = M.box((2.0, 2.0, 1.0))
        tip = np.array([rng.uniform(-0.3, 0.3), rng.uniform(-0.3, 0.3), 0.5 - rng.uniform(0.1, 0.4)])
        base_c = np.array([tip[0], tip[1], 2.0])
        r = 0.15
        VB = np.array([tip, base_c + [r, 0, 0], base_c + [-r / 2, r * 0.87, 0], base_c + [-r / 2, -r * 0.87, 0]])
        FB = M.orient_outward_convex(VB, np.array([[0, 1, 2], [0, 2, 3], [0, 3, 1], [1, 3, 2]]))
        V, F = M.union([A, (VB, FB)])
        truth["disconnected"] = True
        truth["selfintersecting"] = True
    elif kind == "small_parts":
        # two small interpenetrating boxes (edge s of the whole extent) and a distant large part: the parts that
        # intersect are small compared with the mesh
        sz = float(rng.choice([0.05, 0.02, 0.01, 0.005]))
        A = M.box((sz, sz, sz))
        B = M.box((sz, sz, sz), c=(0.45 * sz, 0.3 * sz, 0.25 * sz))
        C = M.box((1, 1, 1), c=(3.0, 0.4, 0.2))
        V, F = M.union([A, B, C])
        truth["disconnected"] = True
        truth["selfintersecting"] = True
    elif kind == "flat_bipyramid":
        # flat lens-like convex body whose facets are all oblique (none lies in a face of the bounding box)
        n = int(rng.integers(3, 8))
        a = np.sort(rng.uniform(0, 2 * np.pi, n)) if rng.random() < 0.5 else np.arange(n) * 2 * np.pi / n
        if np.max(np.diff(np.r_[a, a[0] + 2 * np.pi])) > 0.9 * np.pi:
            a = np.arange(n) * 2 * np.pi / n
        ring = np.c_[np.cos(a), np.sin(a), np.zeros(n)] * 0.5
        V = np.r_[ring, [[0, 0, thin / 2], [0, 0, -thin / 2]]]
        F = np.array([[i, (i + 1) % n, n] for i in range(n)] + [[(i + 1) % n, i, n + 1] for i in range(n)])
        F = M.orient_outward_convex(V, F)
    elif kind == "open":
        V, F = M.convex_hull(rng) if rng.random() < 0.5 else M.extrude(M.SHAPES["L"])
        k = int(rng.integers(1, 3))
        F = np.delete(F, rng.choice(len(F), k, replace=False), axis=0)
        truth["open"] = True
    else:
        raise ValueError(kind)
    return V, F, truth


KINDS = ["hull", "box", "prism", "L", "U", "T", "star", "torus", "plate", "two_parts", "interpenetrating", "spike", "open",
         "small_parts", "flat_bipyramid"]


def build(V, F, **kw):
    import magpylib as magpy

    with quiet(), np.errstate(all="ignore"):
        return magpy.magnet.TriangularMesh(vertices=V, faces=F, polarization=(0.11, -0.23, 0.31), check_open="ignore",
                                           check_disconnected="ignore", check_selfintersecting="ignore", **kw)


def check_mesh(ctx, case, V, F, truth, canonical):
    """canonical = (V0, F0) outward oriented reference mesh describing the same body"""
    key = {"mesh": case["kind"]}
    route = case.get("route", "ctor")
    if route != "ctor":
        key["route"] = route
    try:
        if route in ("late", "late_touched"):
            # the same promise through the public method: handed over unchecked, (used once,) then reoriented
            m = build(V, F, reorient_faces="skip")
            if route == "late_touched":
                with quiet(), np.errstate(all="ignore"):
                    _ = m.mesh
                    m.getB(np.array(V).mean(axis=0) + 0.013 * float(np.ptp(V, axis=0).max()))
            with quiet(), np.errstate(all="ignore"):
                m.reorient_faces(mode="ignore")
        else:
            m = build(V, F, reorient_faces="ignore")
        if route == "shown":
            # displaying the mesh with its status displays on (the disconnected display handles the parts one by
            # one) must leave the normalised orientation alone
            import magpylib as magpy
            with quiet(), np.errstate(all="ignore"):
                magpy.show(m, backend="plotly", return_fig=True, style_mesh_disconnected_show=True,
                           style_mesh_grid_show=True, style_mesh_open_show=True, style_mesh_selfintersecting_show=True)
    except Exception as e:
        ctx.violation({**key, "kind": "constructor-raised", "type": type(e).__name__}, case, exc_info(e))
        return
    ctx.count("meshes_checked")
    ctx.count("route:" + route)
    ctx.count("kind:" + case["kind"])
    nontriv = case["kind"] not in ("hull", "box", "prism") or case.get("flipped", 0) > 0
    ctx.evaluated(case, nontrivial=bool(nontriv))
    got = {"open": bool(m.status_open), "disconnected": bool(m.status_disconnected),
           "selfintersecting": bool(m.status_selfintersecting)}
    ctx.count("status_checks")
    for k, v in truth.items():
        if got[k] != v:
            ctx.violation({**key, "kind": "status-wrong", "status": k, "reported": got[k]}, case, {"truth": v})
            return
    if truth["open"]:
        return  # orientation / field are only promised for closed meshes
    # (interpenetrating parts are closed meshes: each part must come out with outward faces - judged per
    #  connected component by signed volume and edge consistency, which do not care about the other part)
    if truth["selfintersecting"]:
        ctx.count("orientation_checks_interpenetrating")
    Fr = np.array(m.faces)
    ctx.count("orientation_checks")
    if not M.all_outward(np.array(m.vertices), Fr):
        Vr = np.array(m.vertices)
        comps = sorted(M.components(Fr), key=min)
        bad = [c for c in comps if M.signed_volume(Vr, Fr[c]) <= 0 or not M.consistently_oriented(Fr[c])]
        extra = {}
        if truth["selfintersecting"]:
            # mechanism key for interpenetrating (convex) parts: a part is processed when its lowest-index face
            # comes up; its seed facet is ray-tested against all faces NOT YET processed.  The known finding says:
            # a part comes out inside-out exactly when its seed facet lies inside an odd number of parts that are
            # still unprocessed at that moment.  Anything else is a different failure.
            from scipy.spatial import Delaunay

            def inside_hull(pt, comp):
                vv = np.unique(Fr[comp].ravel())
                return bool(Delaunay(Vr[vv]).find_simplex(pt[None])[0] >= 0)
            expl = True
            for c in bad:
                if not M.consistently_oriented(Fr[c]):
                    expl = False
                    break
                seed_c = Vr[Fr[min(c)]].mean(axis=0)
                later = [o for o in comps if min(o) > min(c)]
                if sum(inside_hull(seed_c, o) for o in later) % 2 == 0:
                    expl = False
            extra = {"seed_inside_unprocessed_part": expl}
        ctx.violation({**key, "kind": "not-all-faces-outward-after-reorientation", "thickness<=1e-4": case.get("thin", 1.0) <= 1e-4,
                       **extra}, case, {"components": len(comps), "bad_components": len(bad)})
        return
    # the field must not depend on order / winding / numbering
    V0, F0 = canonical
    size = float(np.ptp(V0, axis=0).max())
    c = V0.mean(axis=0)
    rng = np.random.default_rng(case["seed"])
    obs = c + rng.normal(size=(6, 3)) * size * 1.5
    tris0 = V0[F0]
    w = G.solid_angle_winding(obs, tris0)
    dmin = np.min(np.array([G.tri_dist(obs, t) for t in tris0]), axis=0)
    keep = dmin > 0.02 * size
    obs, w = obs[keep], w[keep]
    if len(obs) == 0:
        return
    try:
        with quiet(), np.errstate(all="ignore"):
            ref = build(V0, F0, reorient_faces="skip")
            Bm, Hm = m.getB(obs, squeeze=False)[0, 0, 0], m.getH(obs, squeeze=False)[0, 0, 0]
            Br, Hr = ref.getB(obs, squeeze=False)[0, 0, 0], ref.getH(obs, squeeze=False)[0, 0, 0]
    except Exception as e:
        ctx.violation({**key, "kind": "field-raised", "type": type(e).__name__}, case, exc_info(e))
        return
    ctx.count("field_checks")
    scale = 0.4
    if np.max(np.abs(Bm - Br)) > 1e-9 * scale or np.max(np.abs(Hm - Hr)) > 1e-9 * scale / (4e-7 * np.pi):
        inside = np.abs(w) > 0.5
        ctx.violation({**key, "kind": "field-depends-on-representation", "inside_row_involved": bool(np.any(inside))}, case,
                      {"dB": float(np.max(np.abs(Bm - Br))), "B": Bm[0], "B_canonical": Br[0]})


def run_random(ctx, rng):
    kind = KINDS[int(rng.integers(0, len(KINDS)))]
    lo = -3 if ctx.tier == "quick" else -6
    thin = float(10 ** rng.uniform(lo, -1)) if kind in ("plate", "flat_bipyramid") else 1.0
    seed = int(rng.integers(0, 2**31))
    r2 = np.random.default_rng(seed)
    V0, F0, truth = base_mesh(r2, kind, thin)
    sz = float(r2.choice([1.0, 1e-3]))
    V0 = V0 * sz
    Vt, Ft = M.transform(r2, V0, F0)
    flipped = int(np.sum([not any(np.array_equal(np.roll(f, k), g) for k in range(3)) for f, g in zip([], [])]))
    case = {"kind": kind, "seed": seed, "thin": thin, "size": sz, "tier": ctx.tier,
            "flipped": int(not M.all_outward(Vt, Ft)) if not truth["open"] else 1,
            "route": str(rng.choice(["ctor", "late", "late_touched", "shown"], p=[0.55, 0.15, 0.2, 0.1]))}
    check_mesh(ctx, case, Vt, Ft, truth, (V0, F0))


def tetra_cases():
    out = []
    for fo in itertools.permutations(range(4)):
        for wm in range(16):
            for vp in itertools.permutations(range(4)):
                out.append((fo, wm, vp))
    return out


def run_tetra(ctx, t):
    fo, wm, vp = t
    V0, F0 = M.tetra()
    vp = np.array(vp)
    inv = np.empty(4, int)
    inv[vp] = np.arange(4)
    V = V0[vp]
    F = inv[F0]
    F = F[list(fo)].copy()
    for i in range(4):
        if wm >> i & 1:
            F[i] = F[i][::-1]
    case = {"kind": "tetra", "seed": 0, "face_order": list(fo), "winding_mask": wm, "vertex_perm": vp.tolist(),
            "flipped": bin(wm).count("1")}
    check_mesh(ctx, case, V, F, {"open": False, "disconnected": False, "selfintersecting": False}, (V0, F0))
    ctx.count("tetra_exhaustive_cases")


def run_shard(ctx):
    rng = ctx.rng
    T = tetra_cases()
    mine = T[ctx.shard::ctx.nshards]
    if ctx.tier == "quick":
        mine = mine[::8]
    done = 0
    for t in mine:
        if ctx.time_left() < ctx.budget_s * 0.5:
            break
        run_tetra(ctx, t)
        done += 1
    if done == len(mine):
        ctx.count("tetra_slices_completed")
    while not ctx.expired():
        run_random(ctx, rng)


def replay(ctx, case):
    if case["kind"] == "tetra":
        run_tetra(ctx, (tuple(case["face_order"]), case["winding_mask"], tuple(case["vertex_perm"])))
        return
    r2 = np.random.default_rng(case["seed"])
    V0, F0, truth = base_mesh(r2, case["kind"], case["thin"])
    sz = float(r2.choice([1.0, 1e-3]))
    V0 = V0 * sz
    Vt, Ft = M.transform(r2, V0, F0)
    check_mesh(ctx, case, Vt, Ft, truth, (V0, F0))
