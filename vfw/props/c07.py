"""C07 - all interfaces to the same computation return the same numbers.

Cross-interface equality monitor.  Reference = per-instance object-oriented evaluation
obj_i.getX(obs_i).  Compared call forms: top-level, source method, sensor method, list forms,
source / sensor / mixed collections, functional interface with per-instance (n,..) arrays and
with single parameter sets (tiled), with and without position/orientation, magnetization
instead of polarization, magpylib.core.* (frame transformation and unit conventions done by
the harness), output='dataframe' values and row order.
The per-class documented parameter shapes come from the table PARAMS below (transcribed
from docs/_pages/user_guide/docs/docs_classes.md + getB docstring), not from the library's
_field_func_kwargs_ndim table - that table is under test.
"""
from __future__ import annotations

import numpy as np
from scipy.spatial.transform import Rotation as R

from vfw import objs, tol
from vfw.util import quiet, exc_info

LEVEL = "exploration"
RULE = ("every registered source class x field B,H,J,M x n in {1,2,3,7} instances x call form; case = (instance "
        "specs, observers, form); non-trivial = functional/core/dataframe/collection form or n>1; distinct by sha1")
ASSUMPTIONS = ["documented parameter shapes as transcribed in PARAMS", "object-oriented single-source call is the "
               "reference (its physics is C01's job)"]

# documented single-instance parameter names for the functional interface
PARAMS = {
    "Cuboid": ["dimension", "polarization"], "Cylinder": ["dimension", "polarization"],
    "CylinderSegment": ["dimension", "polarization"], "Sphere": ["diameter", "polarization"],
    "Tetrahedron": ["vertices", "polarization"], "Triangle": ["vertices", "polarization"],
    "TriangularMesh": ["mesh", "polarization"], "Circle": ["diameter", "current"],
    "Polyline": ["vertices", "current"], "Dipole": ["moment"],
}
FORMS = ["top", "method", "sensor", "lists", "src_coll", "sens_coll", "mixed_coll", "func_n", "func_single",
         "func_nopose", "func_magnetization", "core", "dataframe", "polyline_segments", "sensor_path", "func_inout", "multi"]


def plan(tier):
    return {"shards": 8 if tier == "quick" else 16, "budget_s": 25 if tier == "quick" else 300,
            "required_counters": ["form:" + f for f in FORMS] + ["registered_classes_seen"]}


def gen_case(rng, classes):
    cls = str(rng.choice(classes))
    n = int(rng.choice([1, 2, 3, 7]))
    base = objs.rand_source(rng, cls)
    inst = []
    for i in range(n):
        s = objs.rand_source(rng, cls)
        if cls in ("Polyline",):  # same vertex count per instance for (n,k,3) arrays
            k = len(base["vertices"])
            s["vertices"] = np.random.default_rng(int(rng.integers(2**31))).normal(size=(k, 3)).tolist()
        if cls == "TriangularMesh":  # same face count: reuse base mesh, affinely distorted
            A = np.eye(3) + 0.2 * rng.normal(size=(3, 3))
            if np.linalg.det(A) < 0:
                A[0] *= -1
            if rng.random() < 0.5:  # same base, other height: the instances share coordinate entries
                A = np.diag([1.0, 1.0, float(rng.uniform(0.4, 2.5))])
            s["vertices"] = (np.array(base["vertices"]) @ A.T).tolist()
            s["faces"] = base["faces"]
        inst.append(s)
    obs = rng.normal(size=(n, 3)) * 2.5
    if cls in objs.MAGNETS:
        from vfw.props.c06 import interior_point
        from vfw.oracles import geometry as G

        for i in range(n):
            if rng.random() < 0.4:
                obs[i] = G.to_global(inst[i], interior_point(inst[i]))[0]
    obs = obs.tolist()
    form = str(rng.choice(FORMS))
    field = str(rng.choice(list("BHJM")))
    if form == "multi":
        n = max(n, 2)
        if rng.random() < 0.3:
            # user-defined sources, each with its OWN field function, in one call
            cls, field = "CustomSource", str(rng.choice(list("BH")))
            inst = [objs.rand_custom(rng) for _ in range(n)]
        else:
            while len(inst) < n:
                inst.append(dict(inst[0], position=(rng.normal(size=(1, 3)) * 1.5).tolist()))
        obs = (rng.normal(size=(n, 3)) * 2.5).tolist()
    return {"cls": cls, "instances": inst, "observers": obs, "field": field,
            "form": form, "squeeze": bool(rng.random() < 0.5)}


def func_kwargs(cls, specs, single):
    kw = {}
    for name in PARAMS[cls]:
        vals = []
        for s in specs:
            if name == "mesh":
                v = np.array(s["vertices"], float)[np.array(s["faces"], int)]
            else:
                v = np.array(s[name], float)
            vals.append(v)
        kw[name] = (vals[0] if vals[0].ndim else float(vals[0])) if single else np.array(vals)
    return kw


def reference(case):
    F = case["field"]
    out = []
    for s, o in zip(case["instances"], case["observers"]):
        with quiet():
            out.append(np.asarray(getattr(objs.build(s), "get" + F)(np.array(o))))
    return np.array(out)


def core_eval(case):
    """(n,3) field through magpylib.core with the harness doing frames and units; None if n/a"""
    import magpylib as magpy
    from magpylib import core

    F, cls = case["field"], case["cls"]
    if F not in "BH":
        return None
    mu0 = magpy.mu_0

    class Twice:
        """every core function is called twice with the very same argument objects and the second result is
        used: the documented low-level interface must give the same numbers when its inputs are reused"""

        def __getattr__(self, name):
            f = getattr(magpy.core, name)

            def g(*a, **k):
                f(*a, **k)
                return f(*a, **k)
            return g
    core = Twice()
    res = []
    for s, o in zip(case["instances"], case["observers"]):
        Rs = R.from_quat(s["orientation"][0])
        p = Rs.inv().apply(np.array(o) - np.array(s["position"][0]))[None]
        x, y, z = p[0]
        r, phi = np.hypot(x, y), np.arctan2(y, x)
        inside = False
        if cls in objs.MAGNETS:
            from vfw.oracles import geometry as G

            sd = int(G.side(s, p)[0])
            if sd == 0:
                return None
            inside = sd == 1
        pol = np.array(s.get("polarization", [0, 0, 0]), float)
        if cls == "Cuboid":
            B = core.magnet_cuboid_Bfield(p, np.array([s["dimension"]], float), pol[None])[0]
            H = (B - (pol if inside else 0)) / mu0
        elif cls == "Sphere":
            B = core.magnet_sphere_Bfield(p, np.array([s["diameter"]], float), pol[None])[0]
            H = (B - (pol if inside else 0)) / mu0
        elif cls == "Cylinder":
            r0, z0 = s["dimension"][0] / 2, s["dimension"][1] / 2
            a = (np.zeros(1) + z0 / r0, np.zeros(1) + r / r0, np.zeros(1) + z / r0)
            Bax = np.array(core.magnet_cylinder_axial_Bfield(*a)).reshape(3) * pol[2]  # (Br, Bphi, Bz), B
            tet = np.arctan2(pol[1], pol[0])
            Htv = np.array(core.magnet_cylinder_diametral_Hfield(*a, np.zeros(1) + phi - tet)).reshape(3) \
                * np.hypot(pol[0], pol[1])  # mu0*H in T
            cyl = Bax + Htv
            Bc = np.array([cyl[0] * np.cos(phi) - cyl[1] * np.sin(phi), cyl[0] * np.sin(phi) + cyl[1] * np.cos(phi), cyl[2]])
            # axial part is B, diametral part is mu0*H
            B = Bc + (np.array([pol[0], pol[1], 0.0]) if inside else 0)
            H = (Bc - (np.array([0.0, 0.0, pol[2]]) if inside else 0)) / mu0
        elif cls == "CylinderSegment":
            r1, r2, h, p1, p2 = s["dimension"]
            if p2 - p1 >= 360:
                return None  # full turns are routed through the Cylinder core
            dim = np.array([[r1, r2, np.deg2rad(p1), np.deg2rad(p2), -h / 2, h / 2]])
            M = np.linalg.norm(pol) / mu0
            mag = np.array([[M, np.arctan2(pol[1], pol[0]), np.arctan2(np.hypot(pol[0], pol[1]), pol[2])]])
            Hc = core.magnet_cylinder_segment_Hfield(observers=np.array([[r, phi, z]]), dimensions=dim, magnetizations=mag)[0]
            H = np.array([Hc[0] * np.cos(phi) - Hc[1] * np.sin(phi), Hc[0] * np.sin(phi) + Hc[1] * np.cos(phi), Hc[2]])
            B = mu0 * H + (pol if inside else 0)
        elif cls == "Circle":
            Hc = core.current_circle_Hfield(np.array([s["diameter"] / 2]), np.array([r]), np.array([z]),
                                            np.array([s["current"]], float)).T[0]
            H = np.array([Hc[0] * np.cos(phi), Hc[0] * np.sin(phi), Hc[2]])
            B = mu0 * H
        elif cls == "Polyline":
            v = np.array(s["vertices"], float)
            m = len(v) - 1
            H = core.current_polyline_Hfield(np.repeat(p, m, axis=0), v[:-1], v[1:], np.full(m, s["current"], float)).sum(axis=0)
            B = mu0 * H
        elif cls == "Dipole":
            H = core.dipole_Hfield(p, np.array([s["moment"]], float))[0]
            B = mu0 * H
        elif cls in ("Triangle", "Tetrahedron", "TriangularMesh"):
            from vfw.oracles import geometry as G

            T = np.array([s["vertices"]], float) if cls == "Triangle" else G.mesh_tris(s)
            if cls == "TriangularMesh":
                T = np.array(s["vertices"], float)[np.array(s["faces"], int)]
            Bq = core.triangle_Bfield(np.repeat(p, len(T), axis=0), T, np.repeat(pol[None], len(T), axis=0)).sum(axis=0)
            H = Bq / mu0
            B = Bq + (pol if inside else 0)
        else:
            return None
        res.append(Rs.apply(B if F == "B" else H))
    return np.array(res)


def check_case(ctx, case):
    import magpylib as magpy

    F, cls, form = case["field"], case["cls"], case["form"]
    get = getattr(magpy, "get" + F)
    specs, n = case["instances"], len(case["instances"])
    O = np.array(case["observers"], float)
    try:
        ref = reference(case)
    except Exception as e:
        ctx.violation({"kind": "reference-exception", "cls": cls, "type": type(e).__name__}, case, exc_info(e))
        return
    got = None
    try:
        with quiet():
            if form in ("top", "method", "sensor", "lists", "src_coll", "sens_coll", "mixed_coll", "dataframe"):
                rows = []
                for s, o in zip(specs, O):
                    obj = objs.build(s)
                    # a sensor that was never rotated; left-handed ones report -x (reference flipped below)
                    left = form in ("sensor", "lists", "sens_coll", "mixed_coll") and int(round(abs(o[0]) * 1e6)) % 3 == 0
                    sens = magpy.Sensor(position=o, handedness="left" if left else "right")
                    if left:
                        ctx.count("left_handed_unrotated_sensors")
                    if form == "top":
                        v = get(obj, o)
                    elif form == "method":
                        v = getattr(obj, "get" + F)(o)
                    elif form == "sensor":
                        v = getattr(sens, "get" + F)(obj)
                    elif form == "lists":
                        v = get([obj], [sens], squeeze=False)[0, 0, 0, 0]
                    elif form == "src_coll":
                        v = getattr(magpy.Collection(obj), "get" + F)(o)
                    elif form == "sens_coll":
                        v = getattr(magpy.Collection(sens), "get" + F)(obj)
                    elif form == "mixed_coll":
                        v = getattr(magpy.Collection(obj, sens), "get" + F)()
                    else:
                        # dataframe: two sources x path 2 x two sensors x 2 pixels -> row order
                        obj2 = objs.build(specs[0])
                        obj.move([(0, 0, 0), (0.1, 0, 0)], start=0)
                        s1 = magpy.Sensor(position=o, pixel=[(0, 0, 0), (0.2, 0.1, 0)])
                        s2 = magpy.Sensor(position=o + 0.3, pixel=[(0, 0, 0), (0.2, 0.1, 0)])
                        arr = np.asarray(get([obj, obj2], [s1, s2], squeeze=False))
                        df = get([obj, obj2], [s1, s2], output="dataframe")
                        cols = [F + k for k in "xyz"]
                        vals = df[cols].to_numpy()
                        ok, w = tol.close_a(vals, arr.reshape(-1, 3), tol.floor_abs(s, F), rtol=1e-9)
                        idx_ok = (list(df["path"]) == [m for l in range(2) for m in range(2) for k in range(2) for q in range(2)]
                                  and list(df["pixel"]) == [q for l in range(2) for m in range(2) for k in range(2) for q in range(2)]
                                  and df["source"].nunique() == 2 and df["sensor"].nunique() == 2
                                  and list(df["source"]) == sorted(list(df["source"]), key=list(df["source"]).index))
                        if not (ok and idx_ok and len(df) == 16):
                            ctx.violation({"kind": "dataframe", "cls": cls}, case, {"ratio": w, "idx_ok": idx_ok, "len": len(df)})
                        v = arr[0, 0, 0, 0]
                    rows.append(np.asarray(v) * (np.array([-1.0, 1.0, 1.0]) if left else 1.0))
                got = np.array(rows)
            elif form in ("func_n", "func_single", "func_nopose", "func_magnetization"):
                if cls not in PARAMS:
                    return
                single = form == "func_single"
                use = [specs[0]] * n if single else specs
                kw = func_kwargs(cls, use, single)
                if form == "func_magnetization":
                    if "polarization" not in kw:
                        form_ref_skip = True
                        return
                    kw["magnetization"] = kw.pop("polarization") / magpy.mu_0
                if form == "func_nopose":
                    use = [{**s, "position": [[0.0, 0, 0]], "orientation": [[0.0, 0, 0, 1]]} for s in use]
                else:
                    if single:
                        kw["position"] = np.array(use[0]["position"][0])
                        kw["orientation"] = R.from_quat(use[0]["orientation"][0])
                    else:
                        kw["position"] = np.array([s["position"][0] for s in use])
                        kw["orientation"] = R.from_quat([s["orientation"][0] for s in use])
                case = {**case, "instances": use}
                ref = reference(case)
                got = np.asarray(get(cls, O if n > 1 or not case["squeeze"] else O, squeeze=False, **kw))
                got = got.reshape(-1, 3)
            elif form == "func_inout":
                # in_out is honoured by the functional interface exactly as by the object interface
                if cls not in ("Tetrahedron", "TriangularMesh") or F == "H":
                    return
                io = "inside" if int(round(abs(O[0][0]) * 1e6)) % 2 else "outside"
                kw = func_kwargs(cls, specs, False)
                kw["position"] = np.array([s["position"][0] for s in specs])
                kw["orientation"] = R.from_quat([s["orientation"][0] for s in specs])
                with quiet():
                    ref = np.array([np.asarray(getattr(objs.build(s), "get" + F)(np.array(o), in_out=io))
                                    for s, o in zip(specs, case["observers"])])
                got = np.asarray(get(cls, O, squeeze=False, in_out=io, **kw)).reshape(-1, 3)
                ctx.count("func_inout:" + io)
            elif form == "polyline_segments":
                if cls != "Polyline":
                    return
                # functional interface with segment_start/segment_end: one segment per instance
                segs = [(np.array(s["vertices"][0]), np.array(s["vertices"][1])) for s in specs]
                use = [{**s, "vertices": [a.tolist(), b.tolist()]} for s, (a, b) in zip(specs, segs)]
                case = {**case, "instances": use}
                ref = reference(case)
                got = np.asarray(get("Polyline", O, squeeze=False, current=np.array([s["current"] for s in use]),
                                     segment_start=np.array([a for a, b in segs]), segment_end=np.array([b for a, b in segs]),
                                     position=np.array([s["position"][0] for s in use]),
                                     orientation=R.from_quat([s["orientation"][0] for s in use]))).reshape(-1, 3)
            elif form == "sensor_path":
                # one Sensor object with a position AND orientation path (and pixels) against the same poses
                # evaluated one by one through plain observer positions, rotated into the sensor frame here
                r = np.random.default_rng(__import__("zlib").crc32(repr(case["observers"][0]).encode()))
                s0 = specs[0]
                L = int(r.choice([2, 3, 5]))
                kind = str(r.choice(["generic", "closed", "rocking", "static", "late"]))
                q = R.random(L, random_state=int(r.integers(2**31)))
                if kind == "closed":          # ends where it started
                    q = R.from_quat(np.r_[q.as_quat()[:-1], q.as_quat()[:1]])
                elif kind == "rocking":       # 0 -> a -> 0 about one axis
                    ax = r.normal(size=3)
                    ang = np.r_[0.0, r.uniform(0.2, 2.5, size=L - 2 if L > 2 else 1), 0.0][:max(L, 3)]
                    L = len(ang)
                    q = R.from_rotvec(np.outer(ang, ax / np.linalg.norm(ax))) * q[0]
                elif kind == "static":
                    q = R.from_quat(np.repeat(q.as_quat()[:1], L, axis=0))
                elif kind == "late":          # constant except for the last step
                    qq = np.repeat(q.as_quat()[:1], L, axis=0)
                    qq[-1] = q.as_quat()[-1]
                    q = R.from_quat(qq)
                P = O[0] + r.normal(size=(L, 3)) * 0.3
                pix = r.normal(size=(int(r.integers(1, 4)), 3)) * 0.2
                sens = magpy.Sensor(position=P, orientation=q, pixel=pix)
                obj = objs.build(s0)
                got = np.asarray(get(obj, sens, squeeze=False))[0, :, 0]          # (L, npix, 3)
                refl = []
                for m in range(L):
                    glob = P[m] + q[m].apply(pix)
                    with quiet():
                        v = np.asarray(getattr(objs.build(s0), "get" + F)(glob)).reshape(-1, 3)
                    refl.append(q[m].inv().apply(v))
                ref = np.array(refl)
                case = {**case, "instances": [s0], "sensor_path_kind": kind}
                ctx.count("sensor_path:" + kind)
            elif form == "multi":
                # all instances in ONE call: entry [l, i] of every interface is the field of source l alone at
                # observer i; sumup / Collection forms are the sum over l of those
                with quiet():
                    single = np.array([[np.asarray(getattr(objs.build(sp), "get" + F)(np.array(o))) for o in O] for sp in specs])
                objs_l = [objs.build(sp) for sp in specs]
                sens_l = [magpy.Sensor(position=o) for o in O]
                variant = ["list_pos", "list_sens", "sumup", "collection", "collection_sens", "sens_method"][
                    int(round(abs(O[0][0]) * 1e6)) % 6]
                ctx.count("multi:" + variant)
                if variant == "list_pos":
                    got, ref = np.asarray(get(objs_l, O, squeeze=False))[:, 0, 0], single
                elif variant == "list_sens":
                    got, ref = np.asarray(get(objs_l, sens_l, squeeze=False))[:, 0, :, 0], single
                elif variant == "sumup":
                    got, ref = np.asarray(get(objs_l, O, sumup=True, squeeze=False))[0, 0, 0], single.sum(axis=0)
                elif variant == "collection":
                    got, ref = np.asarray(getattr(magpy.Collection(*objs_l), "get" + F)(O, squeeze=False))[0, 0, 0], single.sum(axis=0)
                elif variant == "collection_sens":
                    got = np.asarray(getattr(magpy.Collection(*objs_l, *sens_l), "get" + F)(squeeze=False))[0, 0, :, 0]
                    ref = single.sum(axis=0)
                else:
                    got, ref = np.asarray(getattr(sens_l[0], "get" + F)(*objs_l, squeeze=False))[:, 0, 0, 0], single[:, 0]
            elif form == "core":
                got = core_eval(case)
                if got is None:
                    return
    except Exception as e:
        ctx.count("form:" + form)
        ctx.evaluated({"cls": cls, "form": form, "F": F, "n": n, "inst0": specs[0]}, nontrivial=True)
        ctx.violation({"kind": "form-raises", "cls": cls, "form": form, "type": type(e).__name__}, case, exc_info(e))
        return
    ctx.count("form:" + form)
    ctx.count("cls:" + cls)
    ctx.evaluated(case, nontrivial=(form not in ("top", "method") or n > 1), n=n)
    fl = max(tol.floor_abs(s, F) for s in case["instances"]) * (len(case["instances"]) if form == "multi" else 1)
    rt = 1e-9 if form != "core" else 1e-7
    ok, w = tol.close_a(got, ref, fl * (1 if form != "core" else 10), rtol=rt)
    if not ok:
        ctx.violation({"kind": "form-mismatch", "cls": cls, "form": form, "field": F}, case,
                      {"ratio": w, "got": np.asarray(got).ravel()[:6], "want": ref.ravel()[:6]})


def run_shard(ctx):
    from magpylib._src.utility import get_registered_sources

    reg = list(get_registered_sources())
    classes = [c for c in reg if c in PARAMS]
    for c in reg:
        if c not in PARAMS and c not in ("Loop", "Line", "CustomSource"):
            ctx.count("registered_class_without_param_table:" + c)
    ctx.count("registered_classes_seen", len(classes))
    while not ctx.expired():
        check_case(ctx, gen_case(ctx.rng, classes))


def replay(ctx, case):
    check_case(ctx, case)
