"""C01 - fields equal the magnetostatic integrals they claim to solve.

Reference-model monitor: every sampled (class, parameters, pose, observer, field in {B,H}) is
compared with vfw.oracles.quad (first-principles adaptive quadrature of the Biot-Savart line
integral / surface-charge integral + winding number / point-dipole formula; no code or
decomposition shared with the library).  Observers are stratified by region and in-frame probes
(sys.monitoring) report which formula branches the library actually took.
"""
from __future__ import annotations

import numpy as np
from scipy.spatial.transform import Rotation as R

from vfw import objs, regions, tol
from vfw.oracles import geometry as G, quad
from vfw.util import quiet, exc_info

LEVEL = "exploration"
RULE = ("per class: random valid geometry (aspect 0.07..15), excitation (generic / axis-aligned / single-component), "
        "random pose; observers stratified: shells at relative distance 1e-3..1 on both sides of the surface, tubes "
        "around the symmetry axis incl. r/r0 = 0.05(1+-1e-k), edge-extension tubes, planes/cylinders through the "
        "faces of a CylinderSegment (offset 1e-3..1e-1), mid field 1-10 and far field 10-1e3 sizes; non-trivial = "
        "region is not 'mid'; distinct by sha1 of (spec, observer, field)")
ASSUMPTIONS = ["oracle = scipy.integrate.cubature/quad_vec on the defining integrals, self-tested in every run "
               "(sphere interior 2J/3, sphere exterior = dipole, cube winding number 1/0, long wire, circle centre)",
               "tolerance 1e-6*|ref| + per-class floor (tol.py) + 10x the oracle's own error estimate"]
REGIONS = ["shell", "axis", "edge_ext", "coincidence_near", "mid", "far", "special_exact"]


def plan(tier):
    return {"shards": 16, "budget_s": 40 if tier == "quick" else 900,
            "required_counters": ["oracle_selftest_ok", "compared_rows"] + ["region:" + r for r in REGIONS]
            + ["cls:" + c for c in objs.SOURCE_CLASSES]}


# ------------------------------------------------------------------ sources
def rand_spec(rng, cls):
    s = objs.rand_source(rng, cls)
    # wider aspect ratios than the default generator
    if cls == "Cuboid":
        s["dimension"] = (10 ** rng.uniform(-0.6, 0.6, 3)).tolist()
    elif cls == "Cylinder":
        s["dimension"] = (10 ** rng.uniform(-0.6, 0.6, 2)).tolist()
    elif cls == "CylinderSegment" and rng.random() < 0.5:
        r1 = float(rng.choice([0.0, 10 ** rng.uniform(-1, 0)]))
        s["dimension"][0], s["dimension"][1] = r1, r1 + 10 ** rng.uniform(-0.8, 0.3)
        s["dimension"][2] = float(10 ** rng.uniform(-0.6, 0.6))
    if "polarization" in s:
        u = rng.random()
        if u < 0.25:
            k = int(rng.integers(0, 3))
            p = [0.0, 0.0, 0.0]
            p[k] = float(rng.choice([-1, 1]) * (0.3 + rng.random()))
            s["polarization"] = p
        elif u < 0.4:
            p = np.array(s["polarization"])
            p[int(rng.integers(0, 3))] = 0.0
            if np.any(p):
                s["polarization"] = p.tolist()
    return s


def sample_observer(rng, s):
    """(local point, region tag)"""
    c = s["cls"]
    size = objs.size_of(s)
    reg = str(rng.choice(REGIONS[:6], p=[0.4, 0.12, 0.12, 0.12, 0.12, 0.12]))
    if reg == "axis" and c not in ("Cylinder", "CylinderSegment", "Circle", "Sphere"):
        reg = "shell"
    if reg == "edge_ext" and c not in ("Cuboid", "Polyline", "Triangle", "Tetrahedron", "TriangularMesh"):
        reg = "shell"
    if reg == "coincidence_near" and c != "CylinderSegment":
        reg = "shell"
    if reg == "shell":
        q, drel, tag = regions.sample(rng, s, lo=-3, hi=0)
        return q, reg
    if reg == "axis":
        r0 = {"Cylinder": lambda: s["dimension"][0] / 2, "CylinderSegment": lambda: s["dimension"][1],
              "Circle": lambda: s["diameter"] / 2, "Sphere": lambda: s["diameter"] / 2}[c]()
        if rng.random() < 0.5:
            rr = r0 * 0.05 * (1 + rng.choice([-1, 1]) * 10.0 ** rng.uniform(-12, -1))
        else:
            rr = r0 * 10.0 ** rng.uniform(-6, -1)
        ph = rng.uniform(0, 2 * np.pi)
        hh = size
        z = rng.uniform(-1.5, 1.5) * hh
        return np.array([rr * np.cos(ph), rr * np.sin(ph), z]), reg
    if reg == "edge_ext":
        if c == "Cuboid":
            h = np.array(s["dimension"]) / 2
            ax = int(rng.integers(0, 3))
            p = h * rng.choice([-1, 1], 3)
            p[ax] = h[ax] * rng.uniform(-3, 3)
            off = rng.normal(size=3) * size * 10.0 ** rng.uniform(-3, -1)
            off[ax] = 0
            return p + off, reg
        V = np.array(s["vertices"], float)
        T = [V] if c in ("Triangle",) else (G.mesh_tris(s) if c != "Polyline" else None)
        if c == "Polyline":
            i = int(rng.integers(0, len(V) - 1))
            a, b = V[i], V[i + 1]
        else:
            t = T[int(rng.integers(0, len(T)))]
            i = int(rng.integers(0, 3))
            a, b = t[i], t[(i + 1) % 3]
        tt = rng.choice([rng.uniform(1.05, 3), rng.uniform(-2, -0.05)])
        p = a + tt * (b - a)
        n = np.cross(b - a, rng.normal(size=3))
        n /= np.linalg.norm(n)
        return p + n * size * 10.0 ** rng.uniform(-3, -1), reg
    if reg == "coincidence_near":
        r1, r2, hh, p1, p2 = s["dimension"]
        which = str(rng.choice(["phi", "r", "z"]))
        eps = 10.0 ** rng.uniform(-6, -1) * rng.choice([-1, 1])
        ph = np.deg2rad(rng.uniform(p1, p2) if rng.random() < 0.5 else rng.uniform(p2, p1 + 360))
        r = rng.uniform(0.05, 2.5) * r2
        z = rng.uniform(-1.5, 1.5) * hh
        if which == "phi":
            ph = np.deg2rad(rng.choice([p1, p2, p1 + 180, p2 + 180])) + eps / max(r, 1e-3) * size
        elif which == "r":
            r = abs(rng.choice([r1, r2]) + eps * size) + 1e-9
        else:
            z = rng.choice([-1, 1]) * hh / 2 + eps * size
        q = np.array([r * np.cos(ph), r * np.sin(ph), z])
        if abs(G.depth(s, q[None])[0]) < 1e-3 * size:
            q = q + np.array([0, 0, 2e-3 * size])
        return q, reg
    dist = 10.0 ** (rng.uniform(0, 1) if reg == "mid" else rng.uniform(1, 3)) * size
    d = rng.normal(size=3)
    return d / np.linalg.norm(d) * dist, reg


# ------------------------------------------------------------------ probes
def attach_probes(ctx):
    pr = ctx.safety
    try:
        from magpylib._src.fields import field_BH_cylinder as FC
        from magpylib._src.fields import field_BH_cylinder_segment as FS
        from magpylib._src.fields import field_BH_polyline as FP
        from magpylib._src.fields import field_BH_triangle as FT
        from magpylib._src.fields import field_BH_circle as FI
        from magpylib._src.fields import field_BH_cuboid as FB
    except Exception:
        ctx.count("probe_unattached:imports")
        return

    def masksum(name, fr, *masks):
        for m in masks:
            v = fr.f_locals.get(m)
            if v is not None:
                ctx.count(f"branch:{name}.{m}", int(np.sum(v)))

    pr.on_line(FC.magnet_cylinder_diametral_Hfield, "if np.any(mask_small_r):",
               lambda fr: masksum("cylinder.diametral", fr, "mask_small_r", "mask_general"), name="cyl.diametral")
    pr.on_line(FP.current_polyline_Hfield, "deltaSin[mask4] =",
               lambda fr: masksum("polyline", fr, "mask2", "mask3", "mask4"), name="polyline.masks")
    pr.on_line(FB.magnet_cuboid_Bfield, "x[maskx] = x[maskx] * -1",
               lambda fr: masksum("cuboid.fold", fr, "maskx", "masky", "maskz"), name="cuboid.fold")
    pr.on_line(FI.BHJM_circle, "mask5 = ~np.logical_or",
               lambda fr: masksum("circle", fr, "mask2", "mask3"), name="circle.masks")

    def tri(fr):
        ind = fr.f_locals.get("ind")
        if ind is not None:
            ctx.count("branch:triangle.ind<=1e-12", int(np.sum(ind <= 1e-12)))
            ctx.count("branch:triangle.ind>1e-12", int(np.sum(ind > 1e-12)))
    pr.on_line(FT.triangle_Bfield, "with np.errstate(divide=\"ignore\", invalid=\"ignore\"):", tri, name="triangle.ind")
    # cylinder-segment case ids: wrap the module-level function (looked up as a global at call time)
    orig = FS.determine_cases

    def wrapped(*a, **k):
        res = orig(*a, **k)
        try:
            ids, cnt = np.unique(res, return_counts=True)
            for i, c in zip(ids, cnt):
                ctx.count(f"branch:cylseg.case{int(i)}", int(c))
        except Exception:
            pass
        return res
    FS.determine_cases = wrapped


# ------------------------------------------------------------------ case
def wire_dist(s, q):
    """distance of local point q from the conductor of a current source"""
    if s["cls"] == "Circle":
        return float(np.hypot(np.hypot(q[0], q[1]) - s["diameter"] / 2, q[2]))
    V = np.array(s["vertices"], float)
    best = np.inf
    for a, b in zip(V[:-1], V[1:]):
        ab = b - a
        L2 = float(ab @ ab)
        t = 0.0 if L2 == 0 else float(np.clip((q - a) @ ab / L2, 0, 1))
        best = min(best, float(np.linalg.norm(q - a - t * ab)))
    return best


def gen_special_exact(rng):
    """source in the identity pose, observers EXACTLY on special sets of its geometry that are not on its
    surface: extensions of edges and face planes, axes, symmetry planes - where grids aligned with a
    magnet put their points and where the implementations switch to special-case formulas"""
    cls = str(rng.choice([c for c in objs.SOURCE_CLASSES if c not in ("CustomSource",)]))
    s = rand_spec(rng, cls)
    s["position"], s["orientation"] = [[0.0, 0.0, 0.0]], [[0.0, 0.0, 0.0, 1.0]]
    size = objs.size_of(s)
    pts = [np.asarray(v, float) for v in G.special_points(s).values()]
    if cls == "Cuboid":
        h = np.array(s["dimension"], float) / 2
        for _ in range(6):
            ax = int(rng.integers(0, 3))
            q = h * rng.choice([-1, 1], 3)
            q[ax] = h[ax] * rng.choice([-1, 1]) * rng.uniform(1.05, 3)      # on the extension of an edge
            pts.append(q)
            q = h * rng.uniform(-3, 3, 3)
            q[ax] = h[ax] * rng.choice([-1, 1])                              # in the plane of a face
            pts.append(q)
            q = h * rng.uniform(-3, 3, 3)
            q[ax] = 0.0                                                      # symmetry plane
            pts.append(q)
    elif cls in ("Cylinder", "CylinderSegment"):
        r = s["dimension"][0] / 2 if cls == "Cylinder" else s["dimension"][1]
        hh = s["dimension"][1] if cls == "Cylinder" else s["dimension"][2]
        for _ in range(4):
            pts.append(np.array([0.0, 0.0, rng.uniform(-2, 2) * hh]))                       # axis
            ph = rng.uniform(0, 2 * np.pi)
            pts.append(np.array([r * np.cos(ph), r * np.sin(ph), rng.choice([-1, 1]) * rng.uniform(0.6, 2) * hh]))  # hull extended
            rr = r * rng.uniform(1.1, 3)
            pts.append(np.array([rr * np.cos(ph), rr * np.sin(ph), rng.choice([-1, 1]) * hh / 2]))  # cap plane
            pts.append(np.array([rr * np.cos(ph), rr * np.sin(ph), 0.0]))
    elif cls in ("Circle",):
        r = s["diameter"] / 2
        for _ in range(4):
            pts.append(np.array([0.0, 0.0, rng.uniform(-3, 3) * r]))
            ph = rng.uniform(0, 2 * np.pi)
            pts.append(np.array([np.cos(ph), np.sin(ph), 0.0]) * r * rng.choice([rng.uniform(0.05, 0.9), rng.uniform(1.1, 3)]))
    keep = []
    for q in pts:
        d = wire_dist(s, q) if cls in ("Circle", "Polyline") else (np.linalg.norm(q) if cls == "Dipole"
                                                                    else float(G.dist_to_surface(s, q[None])[0]))
        if d >= 2e-3 * size:
            keep.append(q)
    if not keep:
        return None
    idx = rng.permutation(len(keep))[:12]
    P = np.array([keep[i] for i in idx])
    return {"source": s, "observers": P.tolist(), "regions": ["special_exact"] * len(P)}


def gen_case(rng):
    if rng.random() < 0.12:
        c = gen_special_exact(rng)
        if c is not None:
            return c
    cls = str(rng.choice(objs.SOURCE_CLASSES))
    s = rand_spec(rng, cls)
    n = int(rng.choice([1, 3, 12, 18]))
    loc, regs = [], []
    for _ in range(n):
        q, reg = sample_observer(rng, s)
        loc.append(np.asarray(q, float))
        regs.append(reg)
    P = G.to_global(s, np.array(loc))
    case = {"source": s, "observers": P.tolist(), "regions": regs}
    if rng.random() < 0.3:
        # hostile call composition: the source is evaluated as the SECOND entry of a two-source call whose first
        # entry is another source of the same class (same vertex count for polylines: one vectorised group)
        c2 = rand_spec(rng, cls)
        if cls == "Polyline":
            c2["vertices"] = rng.normal(size=(len(s["vertices"]), 3)).tolist()
        case["companion"] = c2
    return case


def check_case(ctx, case, only=None):
    import magpylib as magpy

    s = case["source"]
    P = np.array(case["observers"], float)
    try:
        with quiet(), np.errstate(all="ignore"):
            src = objs.build(s)
            if case.get("companion"):
                srcs = [objs.build(case["companion"]), src]
                Bl = np.asarray(magpy.getB(srcs, P, squeeze=False))[1, 0, 0].reshape(-1, 3)
                Hl = np.asarray(magpy.getH(srcs, P, squeeze=False))[1, 0, 0].reshape(-1, 3)
                ctx.count("cases_with_companion_source")
            else:
                Bl = np.asarray(magpy.getB(src, P, squeeze=False))[0, 0, 0].reshape(-1, 3)
                Hl = np.asarray(magpy.getH(src, P, squeeze=False))[0, 0, 0].reshape(-1, 3)
    except Exception as e:
        # raising on special sets is C15's business; everywhere else it is a mismatch with 'returns the field'
        ctx.count("library_raised:" + type(e).__name__)
        ctx.inconclusive_case("library raised " + type(e).__name__, {"source": s})
        return
    size = objs.size_of(s)
    for i in range(len(P)):
        if ctx.time_left() < -30:
            return
        reg = case["regions"][i]
        item = {"source": s, "observer": case["observers"][i]}
        pl = G.to_local(s, P[i:i + 1])[0]
        # the property speaks about observers at relative distance >= 1e-3 from the surface / wire
        if s["cls"] in objs.MAGNETS:
            dsurf = abs(float(G.depth(s, pl[None])[0]))
            if dsurf < 0.9e-3 * size:
                ctx.count("skipped_closer_than_1e-3")
                continue
        try:
            Br, Hr, info = quad.field(s, P[i])
        except quad.NotConverged as e:
            ctx.count("oracle_not_converged")
            ctx.inconclusive_case("oracle: " + str(e)[:120], item)
            continue
        except Exception as e:
            ctx.count("oracle_error:" + type(e).__name__)
            ctx.inconclusive_case("oracle error " + repr(e)[:120], item)
            continue
        if not (np.all(np.isfinite(Bl[i])) and np.all(np.isfinite(Hl[i]))):
            # C15 decides finiteness ON the special sets of the surface itself; here the observer is >= 1e-3 sizes off
            # the surface / wire and the first-principles integral is finite: NaN/inf is not "the field"
            ctx.count("library_nonfinite_rows")
            if np.all(np.isfinite(Br)) and np.all(np.isfinite(Hr)):
                near_co = bool(s["cls"] == "CylinderSegment" and G.cylseg_coincidence_dist(s, pl[None])[0] < 1e-3)
                ctx.violation({"kind": "non-finite-where-the-integral-is-finite", "cls": s["cls"], "region": reg,
                               **({"near_coincidence<1e-3": True} if near_co else {})},
                              # (the whole batch is kept: the vectorised special functions switch on the row count)
                              {"source": s, "observers": case["observers"], "regions": case["regions"],
                               **({"companion": case["companion"]} if case.get("companion") else {})},
                              {"row": i, "lib_B": Bl[i], "lib_H": Hl[i], "ref_B": Br, "local": pl, "batch_rows": len(P)})
            continue
        ctx.count("compared_rows")
        ctx.count("region:" + reg)
        ctx.count("cls:" + s["cls"])
        if "chi" in info and s["cls"] != "Triangle":
            ctx.count("inside_rows" if round(info["chi"]) == 1 else "outside_rows")
        for F, lib, ref in (("B", Bl[i], Br), ("H", Hl[i], Hr)):
            ctx.evaluated({**item, "field": F}, nontrivial=reg != "mid")
            fl = tol.floor_abs(s, F)
            oerr = info.get("err", 0.0) / (1.0 if F == "B" else quad.MU0)
            allowed = 1e-6 * np.linalg.norm(ref) + fl + 10 * oerr
            if oerr > 0.1 * (1e-6 * np.linalg.norm(ref) + fl):
                ctx.count("oracle_too_coarse")
                ctx.inconclusive_case("oracle error estimate too large for the tolerance", item)
                continue
            d = np.linalg.norm(lib - ref)
            if not d <= allowed:
                near_axis = False
                if s["cls"] in ("Cylinder", "CylinderSegment"):
                    ro = s["dimension"][1] if s["cls"] == "CylinderSegment" else s["dimension"][0] / 2
                    near_axis = bool(np.hypot(pl[0], pl[1]) < 0.1 * ro)
                near_co = bool(s["cls"] == "CylinderSegment" and G.cylseg_coincidence_dist(s, pl[None])[0] < 1e-3)
                ctx.violation({"kind": "field!=first-principles", "cls": s["cls"], "field": F, "region": reg,
                               "near_axis_r<0.1r2": near_axis, **({"near_coincidence<1e-3": True} if near_co else {})},
                              {"source": s, "observers": [case["observers"][i]], "regions": [reg],
                               **({"companion": case["companion"]} if case.get("companion") else {})},
                              {"lib": lib, "ref": ref, "err": d, "allowed": allowed, "local": pl, "oracle": info,
                               "rel": d / (np.linalg.norm(ref) + 1e-300)})


def run_shard(ctx):
    st = quad.selftest()
    bad = {k: v for k, v in st.items() if not v < 1e-7}
    if bad or abs(quad.MU0 - __import__("magpylib").mu_0) > 0:
        ctx.inconclusive_case("oracle self-test failed", {"selftest": st})
        return
    ctx.count("oracle_selftest_ok")
    attach_probes(ctx)
    for u in ctx.safety.unattached:
        ctx.count("probe_unattached:" + u)
    while not ctx.expired():
        check_case(ctx, gen_case(ctx.rng))


def replay(ctx, case):
    check_case(ctx, case)
