"""C06 - each output element depends only on its own source, path index and observer.

Batch-vs-solo monitor: a batched squeeze=False call is compared element by element with the
solo evaluation of source l (rebuilt from its spec, frozen at path index m) at sensor k alone
(frozen at m), and for position observers at each single position alone.  Also: shape,
squeeze=True == np.squeeze, permutation of sources permutes the result, duplicates.
"""
from __future__ import annotations

import numpy as np
from scipy.spatial.transform import Rotation as R

from vfw import objs, tol
from vfw.util import quiet, exc_info
from vfw.runner import case_hash

LEVEL = "exploration"
RULE = ("systematic+random batches (group sizes 1-3 per class, path lengths 1-3, observer counts straddling the "
        "n<10 / n<15 scalar-vs-vector switches, ragged Polyline/TriangularMesh groups, observers inside one body "
        "and outside the next, exact surface rows mixed with ordinary rows); non-trivial = some field-function "
        "group has >1 row, or ragged, or batch size adjacent to a switch; distinct by sha1 of the case spec")
ASSUMPTIONS = ["solo evaluation through the same public API is the definition of 'the field of source l alone'"]
NOBS = [1, 2, 5, 9, 10, 11, 14, 15, 16, 40]


def pick_len(rng, maxlen):
    """1, the longest path, or a length strictly in between (a shorter object then rests at its LAST pose)"""
    return int(rng.choice([1, maxlen, int(rng.integers(1, maxlen + 1))]))


def plan(tier):
    return {"shards": 8 if tier == "quick" else 16, "budget_s": 30 if tier == "quick" else 600,
            "required_counters": ["ragged", "mesh_last_row_alone", "surface_rows", "solo_evals", "special_batches"]}


def interior_point(spec):
    """a point strictly inside the body (local frame)"""
    c = spec["cls"]
    if c in ("Tetrahedron", "TriangularMesh"):
        return np.mean(np.array(spec["vertices"], float), axis=0)
    if c == "CylinderSegment":
        r1, r2, h, p1, p2 = spec["dimension"]
        ph = np.deg2rad((p1 + p2) / 2)
        r = (r1 + r2) / 2
        return np.array([r * np.cos(ph), r * np.sin(ph), 0.1 * h])
    if c == "Cuboid":
        return np.array(spec["dimension"]) * [0.2, -0.1, 0.3]
    if c == "Cylinder":
        return np.array([0.2 * spec["dimension"][0], 0.0, 0.2 * spec["dimension"][1]])
    if c == "Sphere":
        return np.array([0.2, 0.1, -0.1]) * spec["diameter"]
    return np.array([0.05, 0.02, 0.01])


def surface_point(spec):
    """a point exactly on the body's surface in the local frame (exact in floating point)"""
    c = spec["cls"]
    if c == "Cuboid":
        d = np.array(spec["dimension"])
        return np.array([d[0] / 2, 0.1 * d[1], 0.2 * d[2]])
    if c == "Cylinder":
        d, h = spec["dimension"]
        return np.array([0.1 * d, 0.05 * d, h / 2])
    if c == "CylinderSegment":
        r1, r2, h, p1, p2 = spec["dimension"]
        ph = np.deg2rad((p1 + p2) / 2)
        r = (r1 + r2) / 2
        return np.array([r * np.cos(ph), r * np.sin(ph), h / 2])
    if c == "Sphere":
        return np.array([spec["diameter"] / 2, 0.0, 0.0])
    return None


def gen_case(rng):
    mode = str(rng.choice(["group", "mixed", "ragged", "meshes", "surface"], p=[0.25, 0.25, 0.15, 0.2, 0.15]))
    maxlen = int(rng.choice([1, 1, 2, 3, 4]))
    srcs = []
    if mode == "group":
        cls = str(rng.choice(objs.SOURCE_CLASSES))
        for _ in range(int(rng.integers(1, 4))):
            srcs.append(objs.rand_source(rng, cls, path_len=pick_len(rng, maxlen)))
    elif mode == "mixed":
        for _ in range(int(rng.integers(1, 5))):
            srcs.append(objs.rand_source(rng, path_len=pick_len(rng, maxlen)))
        for _ in range(int(rng.choice([0, 0, 1, 2, 3]))):  # custom sources, each with its OWN field function
            srcs.append(objs.rand_custom(rng, path_len=pick_len(rng, maxlen)))
    elif mode == "ragged":
        cls = str(rng.choice(["Polyline", "TriangularMesh"]))
        for _ in range(int(rng.integers(2, 4))):
            srcs.append(objs.rand_source(rng, cls, path_len=pick_len(rng, maxlen)))
        if rng.random() < 0.5:
            srcs.append(objs.rand_source(rng, path_len=1))
    elif mode == "meshes":
        for _ in range(int(rng.integers(2, 4))):
            s = objs.rand_source(rng, str(rng.choice(["TriangularMesh", "Tetrahedron", "TriangularMesh"])),
                                 path_len=pick_len(rng, maxlen))
            s["position"] = (np.array(s["position"]) * 3).tolist()
            srcs.append(s)
        if rng.random() < 0.5:  # same mesh twice (grouping loop merges equal meshes)
            srcs.append(dict(srcs[0]))
        if rng.random() < 0.6:  # the same LOCAL mesh again, but another magnet: own polarization and pose
            base = [x for x in srcs if x["cls"] == "TriangularMesh"]
            if base:
                twin = dict(base[0])
                twin["polarization"] = objs.rand_vec(rng)
                if rng.random() < 0.7:
                    twin["position"] = (np.array(twin["position"]) + rng.normal(size=3) * 4).tolist()
                srcs.insert(int(rng.integers(0, len(srcs) + 1)), twin)
    else:  # surface: identity pose so the surface points are exact
        for _ in range(int(rng.integers(1, 3))):
            s = objs.rand_source(rng, str(rng.choice(["Cuboid", "Cylinder", "CylinderSegment", "Sphere"])), path_len=1)
            s["position"] = [[0.0, 0.0, 0.0]]
            s["orientation"] = [[0.0, 0.0, 0.0, 1.0]]
            srcs.append(s)
    if rng.random() < 0.15 and len(srcs) > 1:
        srcs.append(srcs[int(rng.integers(0, len(srcs)))])  # duplicate entry
    order = rng.permutation(len(srcs)).tolist()
    srcs = [srcs[i] for i in order]

    # observers: positions (n,3) built from far points, interior points and exact surface points
    n = int(rng.choice(NOBS)) if rng.random() < 0.7 else int(rng.integers(1, 6))
    pts, kinds = [], []
    for _ in range(n):
        u = rng.random()
        s = srcs[int(rng.integers(0, len(srcs)))]
        p0 = np.array(s["position"][0])
        R0 = R.from_quat(s["orientation"][0])
        if mode == "surface" and u < 0.6:
            pts.append(surface_point(s))
            kinds.append("surface")
        elif u < 0.45 and s["cls"] in objs.MAGNETS:
            pts.append(R0.apply(interior_point(s)) + p0)
            kinds.append("inside")
        elif u < 0.7:
            pts.append(p0 + R0.apply(rng.normal(size=3) * objs.size_of(s) * 0.8))
            kinds.append("near")
        else:
            pts.append(rng.normal(size=3) * 4)
            kinds.append("far")
    if mode == "surface" and rng.random() < 0.4:  # all rows on the surface of the first source
        pts = [surface_point(srcs[0]) for _ in range(n)]
        kinds = ["surface"] * n
    use_sensors = mode != "surface" and rng.random() < 0.4
    has_custom = any(x["cls"] == "CustomSource" for x in srcs)
    case = {"mode": mode, "sources": srcs, "field": str(rng.choice(list("BH" if has_custom else "BHJM"))), "kinds": kinds}
    if use_sensors:
        K = int(rng.integers(1, 4))
        pix = np.array(pts).reshape(-1, 3)
        sens = []
        for _ in range(K):
            L = pick_len(rng, maxlen)
            # rotated and never-rotated sensors of either handedness side by side: what a sensor reports must not
            # depend on whether some OTHER observer in the call needs a rotation
            static = bool(rng.random() < 0.4)
            sens.append({"cls": "Sensor", "pixel": (pix * 0.5).tolist(),
                         "handedness": str(rng.choice(["right", "left"], p=[0.6, 0.4])),
                         "position": (rng.normal(size=(L, 3)) * 0.5).tolist(),
                         "orientation": [[0.0, 0.0, 0.0, 1.0]] * L if static else objs.rand_rot(rng, L)})
        case["sensors"] = sens
    else:
        case["observers"] = np.array(pts).tolist()
    return case


def solo(case, l, m, k=None, pos=None):
    import magpylib as magpy

    s = objs.build(objs.freeze(case["sources"][l], m))
    F = case["field"]
    with quiet():
        if k is not None:
            sn = objs.build(objs.freeze(case["sensors"][k], m))
            return np.asarray(getattr(magpy, "get" + F)(s, sn, squeeze=False))[0, 0, 0]
        return np.asarray(getattr(magpy, "get" + F)(s, np.array(pos), squeeze=False))[0, 0, 0]


SPECIAL_CLASSES = ["Cuboid", "Cylinder", "Sphere", "Circle", "Polyline", "Triangle", "Tetrahedron", "TriangularMesh", "Dipole"]


def gen_special(rng):
    """one source in the identity pose, observers EXACTLY on special sets of its geometry (hull / face-plane /
    edge extensions, axis, symmetry planes - where the special functions get arguments like p = 0, k = 1), in
    batches on both sides of the scalar/vector switches.  (CylinderSegment is left to C15: it raises there.)"""
    from vfw.oracles import geometry as G
    from vfw.props.c01 import gen_special_exact

    while True:
        c = gen_special_exact(rng)
        if c is not None and c["source"]["cls"] in SPECIAL_CLASSES:
            break
    s = c["source"]
    if "polarization" in s and rng.random() < 0.5:   # axis-aligned polarization: separate branches (cylinder)
        p = [0.0, 0.0, 0.0]
        p[int(rng.integers(0, 3))] = float(rng.choice([-1, 1]) * (0.3 + rng.random()))
        s["polarization"] = p
    P = np.array(c["observers"], float)
    n = int(rng.choice([3, 9, 10, 11, 15, 16, 40]))
    P = P[rng.integers(0, len(P), size=n)]
    return {"mode": "special", "sources": [s], "observers": P.tolist(), "field": str(rng.choice(list("BH"))),
            "kinds": ["special"] * n}


def check_special(ctx, case):
    """every row of the batch against the same observer evaluated alone"""
    import magpylib as magpy

    s, F = case["sources"][0], case["field"]
    P = np.array(case["observers"], float)
    try:
        with quiet(), np.errstate(all="ignore"):
            got = np.asarray(getattr(magpy, "get" + F)(objs.build(s), P, squeeze=False)).reshape(-1, 3)
            single = np.array([np.asarray(getattr(magpy, "get" + F)(objs.build(s), p[None], squeeze=False)).reshape(3) for p in P])
    except Exception as e:
        ctx.count("special_raised:" + type(e).__name__)   # raising on special sets is decided by C15
        return
    ctx.count("special_batches")
    ctx.count("special_rows", len(P))
    ctx.count("mode:special")
    ctx.count("batch:" + str(len(P)) if len(P) in NOBS else "batch:other")
    ctx.evaluated(case, nontrivial=len(P) >= 9, n=len(P))
    ok, w = tol.close_a(got, single, tol.floor_abs(s, F))
    if not ok:
        d = np.abs(got - single).max(axis=1)
        row = int(np.argmax(np.nan_to_num(d, nan=np.inf)))
        ctx.violation({"kind": "batch!=single-observer", "cls": s["cls"], "field": F, "obs": "special"}, case,
                      {"row": row, "ratio": w, "batch": got[row], "single": single[row], "observer": P[row]})


def check_case(ctx, case):
    import magpylib as magpy

    if case.get("mode") == "special":
        return check_special(ctx, case)
    F = case["field"]
    specs = case["sources"]
    uniq = {}
    srcs = []
    for s in specs:  # duplicates in the list are the same object
        key = case_hash(s)
        if key not in uniq:
            uniq[key] = objs.build(s)
        srcs.append(uniq[key])
    has_s = "sensors" in case
    obs = [objs.build(s) for s in case["sensors"]] if has_s else np.array(case["observers"], float)
    try:
        with quiet():
            got = np.asarray(getattr(magpy, "get" + F)(srcs, obs, squeeze=False))
            got_sq = np.asarray(getattr(magpy, "get" + F)(srcs, obs, squeeze=True))
    except Exception as e:
        ctx.violation({"kind": "exception", "type": type(e).__name__}, case, exc_info(e))
        return
    L = len(specs)
    lens = [objs.path_len(s) for s in specs] + ([objs.path_len(s) for s in case["sensors"]] if has_s else [])
    M = max(lens)
    K = len(obs) if has_s else 1
    pix = np.array(case["sensors"][0]["pixel"]).shape if has_s else np.array(case["observers"]).shape
    want_shape = (L, M, K, *pix)
    # group structure for the non-triviality rule / counters
    by_cls = {}
    for s in specs:
        by_cls.setdefault(s["cls"], []).append(s)
    n_rows = int(np.prod(pix[:-1]))
    ragged = any(len({len(x.get("vertices", [])) if c == "Polyline" else len(x.get("faces", []))
                      for x in v}) > 1 for c, v in by_cls.items() if c in ("Polyline", "TriangularMesh"))
    nontriv = any(len(v) * n_rows * M > 1 for v in by_cls.values()) or ragged
    if ragged:
        ctx.count("ragged")
    if "TriangularMesh" in by_cls and len(by_cls["TriangularMesh"]) > 1 and n_rows * M * K == 1:
        ctx.count("mesh_last_row_alone")
    if "surface" in case["kinds"]:
        ctx.count("surface_rows")
    if has_s:
        st = [all(np.allclose(q, [0, 0, 0, 1]) for q in x["orientation"]) for x in case["sensors"]]
        lh = [x.get("handedness") == "left" for x in case["sensors"]]
        if any(a and b for a, b in zip(st, lh)):
            ctx.count("unrotated_left_handed_sensor_" + ("alone_or_with_unrotated" if all(st) else "beside_rotated"))
    ctx.count("batch:" + str(n_rows) if n_rows in NOBS else "batch:other")
    ctx.count("mode:" + case["mode"])
    ctx.evaluated({k: v for k, v in case.items()}, nontrivial=nontriv, n=int(np.prod(want_shape[:-1])))
    if got.shape != want_shape:
        ctx.violation({"kind": "shape"}, case, {"got": got.shape, "want": want_shape})
        return
    # two calls are compared to rounding, not bitwise: numpy reductions pick alignment-dependent
    # summation orders, so repeated identical calls differ in the last ulp (observed 2e-16)
    if not (got_sq.shape == np.squeeze(got).shape and tol.close_a(got_sq, np.squeeze(got), max(tol.floor_abs(s, F) for s in specs), rtol=1e-12)[0]):
        ctx.violation({"kind": "squeeze"}, case, {"got": got_sq.shape, "want": np.squeeze(got).shape})
    floors = [tol.floor_abs(s, F) for s in specs]
    for l in range(L):
        for m in range(M):
            for k in range(K):
                try:
                    if has_s:
                        ref = solo(case, l, m, k=k)
                    else:
                        ref = solo(case, l, m, pos=case["observers"])
                except Exception as e:
                    ctx.violation({"kind": "solo-exception", "type": type(e).__name__}, case, exc_info(e))
                    return
                ctx.count("solo_evals")
                ok, w = tol.close_a(got[l, m, k], ref, floors[l])
                if not ok:
                    d = np.abs(got[l, m, k] - ref).reshape(-1, 3).max(axis=1)
                    row = int(np.argmax(np.nan_to_num(d, nan=np.inf)))
                    kind = case["kinds"][row] if row < len(case["kinds"]) else "?"
                    ctx.violation({"kind": "batch!=solo", "cls": specs[l]["cls"], "field": F, "obs": kind,
                                   "ncls": len(by_cls[specs[l]["cls"]])},
                                  case, {"l": l, "m": m, "k": k, "row": row, "ratio": w,
                                         "batch": got[l, m, k].reshape(-1, 3)[row], "solo": ref.reshape(-1, 3)[row]})
                    return
    # single positions alone (position observers only)
    if not has_s:
        P = np.array(case["observers"], float)
        idx = ctx.rng.choice(len(P), size=min(3, len(P)), replace=False)
        for i in idx:
            l = int(ctx.rng.integers(0, L))
            m = int(ctx.rng.integers(0, M))
            ref = solo(case, l, m, pos=[P[i]])
            ctx.count("solo_evals")
            ok, w = tol.close_a(got[l, m, 0, i], ref[0], floors[l])
            if not ok:
                ctx.violation({"kind": "batch!=single-observer", "cls": specs[l]["cls"], "field": F,
                               "obs": case["kinds"][i]}, case,
                              {"l": l, "m": m, "i": int(i), "ratio": w, "batch": got[l, m, 0, i], "solo": ref[0]})
                return
    # permutation of sources permutes the result
    if L > 1:
        perm = ctx.rng.permutation(L)
        with quiet():
            gp = np.asarray(getattr(magpy, "get" + F)([srcs[i] for i in perm], obs, squeeze=False))
        ok, w = tol.close_a(gp, got[perm], max(floors))
        if not ok:
            ctx.violation({"kind": "permutation", "field": F}, case, {"perm": perm.tolist(), "ratio": w})


def run_shard(ctx):
    while not ctx.expired():
        check_case(ctx, gen_special(ctx.rng) if ctx.rng.random() < 0.15 else gen_case(ctx.rng))


def replay(ctx, case):
    check_case(ctx, case)
