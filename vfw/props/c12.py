"""C12 - results are invariant under the choice of length unit.

Metamorphic monitor.  Instrument (i): scale factors 2^k, k in [-30,30] (1e-9..1e9): scaling by a
power of two is exact in binary floating point, so a unit-free implementation reproduces the
base result up to rounding of non-linear functions and any larger deviation is caused by an
absolute threshold inside the library.  Instrument (ii): powers of ten / random factors with
the class tolerance.  Magnets: B,H,J unchanged; currents: 1/s; dipoles: 1/s^3.  Excitations from
1e-12 to 1e12 scale the result proportionally.  TriangularMesh: open/disconnected/self-
intersecting status, reoriented faces and inside/outside (getJ) must not depend on the scale.
"""
from __future__ import annotations

import numpy as np

from vfw import objs, tol
from vfw.oracles import geometry as G
from vfw.props import c01
from vfw.util import quiet, exc_info

LEVEL = "exploration"
RULE = ("C01 configuration generator (all classes, observers in all regions incl. exact special points of the "
        "geometry) at base size ~1, rescaled by 2^k (k in [-30,30]), 10^k (k in [-9,9]) and random factors; "
        "TriangularMesh zoo incl. interpenetrating / open / disconnected meshes and randomly flipped faces; "
        "non-trivial = |log10 s| >= 3; distinct by sha1 of (spec, observers, scale)")
ASSUMPTIONS = ["scaling by 2^k is exact for all inputs; outputs may still differ by rounding inside trigonometric / "
               "elliptic functions: rtol 1e-9 + class floor",
               "known findings are keyed by mechanism and by direction of the scale (small/large)"]


def plan(tier):
    return {"shards": 8 if tier == "quick" else 16, "budget_s": 30 if tier == "quick" else 480,
            "required_counters": ["field_pairs", "mesh_status_pairs", "pow2_pairs", "pow10_pairs", "excitation_pairs",
                                  "special_point_rows", "setup_pairs", "setup_cls:TriangularMesh"]}


def scale_spec(s, f):
    s2 = dict(s)
    for k in ("dimension",):
        if k in s:
            d = np.array(s[k], float)
            if s["cls"] == "CylinderSegment":
                d = np.r_[d[:3] * f, d[3:]]
            else:
                d = d * f
            s2[k] = d.tolist()
    if "diameter" in s:
        s2["diameter"] = s["diameter"] * f
    if "vertices" in s:
        s2["vertices"] = (np.array(s["vertices"], float) * f).tolist()
    s2["position"] = (np.array(s["position"], float) * f).tolist()
    return s2


def law(cls, f):
    if cls in objs.CURRENTS:
        return f
    if cls == "Dipole":
        return f**3
    return 1.0


def gen_field_case(rng):
    cls = str(rng.choice(objs.SOURCE_CLASSES))
    s = c01.rand_spec(rng, cls)
    pts, kinds = [], []
    sp = G.special_points(s)
    names = list(sp)
    for _ in range(int(rng.choice([1, 4, 12]))):
        if rng.random() < 0.35 and names:
            nm = names[int(rng.integers(0, len(names)))]
            pts.append(np.asarray(sp[nm], float))
            kinds.append("special:" + nm)
        else:
            q, reg = c01.sample_observer(rng, s)
            pts.append(np.asarray(q, float))
            kinds.append(reg)
    exact = bool(rng.random() < 0.5)  # identity pose keeps special points exactly on the special sets
    if exact:
        s["position"], s["orientation"] = [[0.0, 0.0, 0.0]], [[0.0, 0.0, 0.0, 1.0]]
        P = np.array(pts)
    else:
        P = G.to_global(s, np.array(pts))
    mode = str(rng.choice(["pow2", "pow10", "random"], p=[0.6, 0.25, 0.15]))
    if mode != "pow2":
        # points exactly on a surface / wire are only meaningful under exact (power of two) scaling: any other
        # factor moves them off the set by rounding, which is not a dependence on the unit
        keep = [i for i, k in enumerate(kinds) if not k.startswith("special")]
        if not keep:
            mode = "pow2"
        else:
            P, kinds = P[keep], [kinds[i] for i in keep]
    if mode == "pow2":
        f = 2.0 ** int(rng.integers(-30, 31))
    elif mode == "pow10":
        f = 10.0 ** int(rng.integers(-9, 10))
    else:
        f = float(10.0 ** rng.uniform(-9, 9))
    return {"type": "field", "source": s, "observers": P.tolist(), "kinds": kinds, "scale": f, "mode": mode,
            # the ends of the stated range (1e-12, 1e12) are drawn on purpose: absolute thresholds on an excitation
            # component bite there first
            "excitation": (float(10.0 ** int(rng.choice([-12, -12, -9, -6, -3, 3, 6, 9, 12, 12]))) if rng.random() < 0.5
                           else float(10.0 ** rng.uniform(-12, 12))) if rng.random() < 0.3 else 1.0}


def fields(spec, P):
    import magpylib as magpy

    with quiet(), np.errstate(all="ignore"):
        src = objs.build(spec)
        return {F: np.asarray(getattr(magpy, "get" + F)(src, P, squeeze=False))[0, 0, 0].reshape(-1, 3) for F in "BHJ"}


def sbucket(f):
    """mechanism keys carry the scale range, so a scale dependence inside 1e-4..1e4 is never covered by
    a finding about extreme scales"""
    l = np.log10(f)
    return "s<=1e-4" if l <= -4 else ("s>=1e4" if l >= 4 else "1e-4<s<1e4")


def cgroup(cls):
    return "triangle-based" if cls in ("Triangle", "Tetrahedron", "TriangularMesh") else cls


def wgroup(kind):
    return "special-set" if kind.startswith("special") else kind


def check_field(ctx, case):
    s, f = case["source"], case["scale"]
    P = np.array(case["observers"], float)
    e = case["excitation"]
    try:
        base = fields(s, P)
        s2 = scale_spec(s, f)
        if e != 1.0:
            for k in ("polarization", "moment"):
                if k in s2:
                    s2[k] = (np.array(s2[k]) * e).tolist()
            if "current" in s2:
                s2["current"] = s2["current"] * e
        got = fields(s2, P * f)
    except Exception as ex:
        ctx.count("library_raised:" + type(ex).__name__)
        ctx.inconclusive_case("library raised " + type(ex).__name__ + " (C15 domain)", {"cls": s["cls"]})
        return
    ctx.count("field_pairs")
    ctx.count({"pow2": "pow2_pairs", "pow10": "pow10_pairs", "random": "pow10_pairs"}[case["mode"]])
    if e != 1.0:
        ctx.count("excitation_pairs")
    fac = law(s["cls"], f) / e
    size = objs.size_of(s)
    Pl = G.to_local(s, P)
    for i in range(len(P)):
        kind = case["kinds"][i]
        if kind.startswith("special"):
            ctx.count("special_point_rows")
        for F in "BHJ":
            a, b = base[F][i], got[F][i] * fac
            ctx.evaluated({"source": s, "obs": case["observers"][i], "scale": f, "F": F}, nontrivial=abs(np.log10(f)) >= 3)
            if not (np.all(np.isfinite(a)) and np.all(np.isfinite(b))):
                if np.all(np.isfinite(a)) != np.all(np.isfinite(b)):
                    ctx.violation({"kind": "finite-at-one-scale-only", "cls": cgroup(s["cls"]), "where": wgroup(kind),
                                   "scale": sbucket(f)}, case,
                                  {"i": i, "base": a, "scaled": b, "scale": f, "F": F, "local": Pl[i]})
                continue
            fl = tol.floor_abs(s, F if F != "J" else "B")
            # distance-to-surface amplification as in C03 (observers closer than 1e-3 sizes)
            if s["cls"] in objs.MAGNETS and not kind.startswith("special"):
                d = abs(float(G.depth(s, Pl[i:i + 1])[0])) / size
                if s["cls"] == "CylinderSegment":   # also the extensions of its faces (C01 finding cylseg-near-coincidence-precision)
                    d = min(d, float(G.cylseg_coincidence_dist(s, Pl[i:i + 1])[0]))
                fl *= max(1.0, 1e-3 / max(d, 1e-12)) ** 2
            rt = 1e-9 if case["mode"] == "pow2" else 1e-7
            ok, w = tol.close_a(b, a, fl, rtol=rt)
            if not ok:
                on_special = kind.startswith("special")
                near_axis = None
                if s["cls"] == "CylinderSegment":
                    near_axis = bool(np.hypot(Pl[i][0], Pl[i][1]) < 0.1 * s["dimension"][1])
                ctx.violation({"kind": "scale-dependent-field", "cls": cgroup(s["cls"]), "where": wgroup(kind),
                               "scale": sbucket(f), "cylseg_near_axis": near_axis},
                              case, {"i": i, "base": a, "scaled_back": b, "scale": f, "ratio": w, "F": F, "local": Pl[i]})
                break


# ------------------------------------------------------------------ meshes
def mesh_zoo(rng):
    """(vertices, faces, truth) ; truth = dict(open, disconnected, selfintersecting) by construction"""
    kind = str(rng.choice(["closed", "flipped", "open", "two_parts", "interpenetrating", "plate"]))
    V, F = objs.rand_mesh(rng)
    V, F = np.array(V, float), np.array(F, int)
    truth = {"open": False, "disconnected": False, "selfintersecting": False}
    if kind == "flipped":
        m = rng.random(len(F)) < 0.4
        F[m] = F[m][:, ::-1]
    elif kind == "open":
        F = np.delete(F, int(rng.integers(0, len(F))), axis=0)
        truth["open"] = True
    elif kind in ("two_parts", "interpenetrating"):
        V2, F2 = objs.rand_mesh(rng, "box")
        V2, F2 = np.array(V2, float), np.array(F2, int)
        ext = V.max(axis=0) - V.min(axis=0)
        if kind == "two_parts":
            V2 = V2 - V2.mean(axis=0) + V.mean(axis=0) + np.array([ext[0] + (V2.max(axis=0) - V2.min(axis=0))[0], 0, 0]) * 1.3
        else:
            V2 = V2 - V2.mean(axis=0) + V.mean(axis=0) + 0.25 * ext * rng.choice([-1, 1], 3)
            truth["selfintersecting"] = None  # decided below by an independent test
        F = np.r_[F, F2 + len(V)]
        V = np.r_[V, V2]
        truth["disconnected"] = True
    elif kind == "plate":
        V = V * np.array([1.0, 1.0, 10.0 ** rng.uniform(-3, -1)])
    return V, F, truth, kind


def mesh_report(V, F, pol=(0.1, 0.2, 0.3)):
    import magpylib as magpy

    with quiet(), np.errstate(all="ignore"):
        m = magpy.magnet.TriangularMesh(vertices=V, faces=F, polarization=pol, check_open="ignore",
                                        check_disconnected="ignore", check_selfintersecting="ignore", reorient_faces="ignore")
        rep = {"open": bool(m.status_open), "disconnected": bool(m.status_disconnected),
               "selfintersecting": bool(m.status_selfintersecting), "faces": np.array(m.faces).tolist()}
        c = V[F].mean(axis=1)  # face centroids pushed in / out along the face normal of the given winding
        inner = V.mean(axis=0) + 0.0
        probes = np.r_[[inner], c + 0.3 * (c - inner), c - 0.3 * (c - inner) * 0.5]
        rep["J"] = np.asarray(m.getJ(probes * 1.0)).tolist()
        rep["probes"] = probes
    return rep


def check_mesh(ctx, case):
    rng = np.random.default_rng(case["seed"])
    V, F, truth, kind = mesh_zoo(rng)
    f = case["scale"]
    try:
        base = mesh_report(V, F)
        with quiet(), np.errstate(all="ignore"):
            import magpylib as magpy

            m2 = magpy.magnet.TriangularMesh(vertices=V * f, faces=F, polarization=(0.1, 0.2, 0.3), check_open="ignore",
                                             check_disconnected="ignore", check_selfintersecting="ignore",
                                             reorient_faces="ignore")
            got = {"open": bool(m2.status_open), "disconnected": bool(m2.status_disconnected),
                   "selfintersecting": bool(m2.status_selfintersecting), "faces": np.array(m2.faces).tolist(),
                   "J": np.asarray(m2.getJ(base["probes"] * f)).tolist()}
    except Exception as ex:
        ctx.violation({"kind": "mesh-raises-at-some-scale", "mesh": kind, "type": type(ex).__name__,
                       "scale": sbucket(f)}, case, exc_info(ex))
        return
    ctx.count("mesh_status_pairs")
    ctx.count("mesh:" + kind)
    ctx.evaluated(case, nontrivial=abs(np.log10(f)) >= 3)
    d = sbucket(f)
    for k in ("open", "disconnected", "selfintersecting"):
        if base[k] != got[k]:
            ctx.violation({"kind": "mesh-status-depends-on-scale", "status": k, "scale": d}, case,
                          {"base": base[k], "scaled": got[k], "scale": f, "mesh": kind})
            return
    if base["faces"] != got["faces"]:
        ctx.violation({"kind": "face-orientation-depends-on-scale", "scale": d}, case, {"scale": f, "mesh": kind})
        return
    if not np.array_equal(np.array(base["J"]), np.array(got["J"])):
        ctx.violation({"kind": "mesh-inside-outside-depends-on-scale", "scale": d}, case, {"scale": f, "mesh": kind})
        return
    # the alternative constructors: the stored geometry is the given one at every scale (2^k scaling is exact)
    if kind in ("closed", "flipped", "plate"):
        T = V[F]
        pol = (0.1, 0.2, 0.3)
        kw = dict(check_open="ignore", check_disconnected="ignore", check_selfintersecting="ignore", reorient_faces="ignore")
        P = V.mean(axis=0) + (V.max(axis=0) - V.min(axis=0)) * np.array([[1.3, 0.2, -0.4], [-0.3, 0.9, 1.1]])
        for name in ("from_mesh", "from_triangles", "from_ConvexHull"):
            try:
                with quiet(), np.errstate(all="ignore"):
                    def make(g):
                        if name == "from_mesh":
                            return magpy.magnet.TriangularMesh.from_mesh(mesh=T * g, polarization=pol, **kw)
                        if name == "from_triangles":
                            tri = [magpy.misc.Triangle(vertices=t * g, polarization=pol) for t in T]
                            return magpy.magnet.TriangularMesh.from_triangles(triangles=tri, polarization=pol, **kw)
                        return magpy.magnet.TriangularMesh.from_ConvexHull(points=V * g, polarization=pol, **kw)
                    a, b = make(1.0), make(f)
                    Ba, Bb = np.asarray(a.getB(P)), np.asarray(b.getB(P * f))
            except Exception as ex:
                ctx.violation({"kind": "mesh-raises-at-some-scale", "mesh": kind, "type": type(ex).__name__, "scale": d,
                               "ctor": name}, case, exc_info(ex))
                return
            ctx.count("ctor_pairs:" + name)
            if name != "from_ConvexHull":
                va, vb = np.asarray(a.vertices), np.asarray(b.vertices) / f
                if va.shape != vb.shape or not np.array_equal(va, vb) or not np.array_equal(a.faces, b.faces):
                    ctx.violation({"kind": "constructor-geometry-depends-on-scale", "ctor": name, "scale": d}, case,
                                  {"scale": f, "nverts": [len(va), len(vb)],
                                   "maxdiff": float(np.max(np.abs(va - vb))) if va.shape == vb.shape else None})
                    return
            # same tolerance as everywhere for triangle-based sources: rtol 1e-9 + the class floor (qhull may pick
            # another, equivalent triangulation of a face at another scale - rounding-level differences)
            if not tol.close_a(Bb, Ba, tol.FLOOR_CLASS["TriangularMesh"] * tol.EPS * float(np.linalg.norm(pol)), rtol=1e-9)[0]:
                ctx.violation({"kind": "constructor-field-depends-on-scale", "ctor": name, "scale": d}, case,
                              {"scale": f, "base": Ba, "scaled": Bb})
                return


# ------------------------------------------------------------------ whole setups (several sources in one call)
def gen_setup_case(rng):
    """2-3 sources of ONE class (they share a vectorised group inside the library; TriangularMeshes mostly with the
    same number of facets) and observers placed relative to each of them, everything rescaled together"""
    cls = str(rng.choice(objs.SOURCE_CLASSES + ["TriangularMesh"] * 4))
    n = int(rng.integers(2, 4))
    specs = []
    for _ in range(n):
        sp = c01.rand_spec(rng, cls)
        if cls == "TriangularMesh" and rng.random() < 0.8:
            sp["vertices"], sp["faces"] = objs.rand_mesh(rng, "box")      # 12 facets each, different geometry
            sp.pop("lifecycle", None)
        specs.append(sp)
    pts, kinds, owner = [], [], []
    for l, sp in enumerate(specs):
        for _ in range(3):
            q, reg = c01.sample_observer(rng, sp)
            pts.append(G.to_global(sp, np.asarray(q, float)[None])[0])
            kinds.append(reg)
            owner.append(l)
    k = int(rng.integers(-30, 31)) if rng.random() < 0.6 else int(rng.choice([-30, -29, -28, -27, -26, 26, 27, 28, 29, 30]))
    return {"type": "setup", "sources": specs, "observers": np.array(pts).tolist(), "kinds": kinds, "owner": owner,
            "scale": 2.0 ** k, "mode": "pow2", "sumup": bool(rng.random() < 0.2)}


def setup_fields(specs, P):
    import magpylib as magpy

    with quiet(), np.errstate(all="ignore"):
        srcs = [objs.build(sp) for sp in specs]
        return {F: np.asarray(getattr(magpy, "get" + F)(srcs, P, squeeze=False))[:, 0, 0].reshape(len(srcs), -1, 3) for F in "BHJ"}


def check_setup(ctx, case):
    specs, f = case["sources"], case["scale"]
    P = np.array(case["observers"], float)
    try:
        base = setup_fields(specs, P)
        got = setup_fields([scale_spec(sp, f) for sp in specs], P * f)
    except Exception as ex:
        ctx.count("library_raised:" + type(ex).__name__)
        ctx.inconclusive_case("library raised " + type(ex).__name__ + " (C15 domain)", {"cls": specs[0]["cls"]})
        return
    ctx.count("setup_pairs")
    ctx.count("setup_cls:" + specs[0]["cls"])
    cls = specs[0]["cls"]
    fac = law(cls, f)
    for l, sp in enumerate(specs):
        size = objs.size_of(sp)
        Pl = G.to_local(sp, P)
        for i in range(len(P)):
            for F in "BHJ":
                a, b = base[F][l, i], got[F][l, i] * fac
                ctx.evaluated({"sources": specs, "obs": case["observers"][i], "scale": f, "F": F, "l": l},
                              nontrivial=abs(np.log10(f)) >= 3)
                if not (np.all(np.isfinite(a)) and np.all(np.isfinite(b))):
                    if np.all(np.isfinite(a)) != np.all(np.isfinite(b)):
                        ctx.violation({"kind": "finite-at-one-scale-only", "cls": cgroup(cls), "where": "setup", "scale": sbucket(f)},
                                      case, {"i": i, "l": l, "base": a, "scaled": b, "scale": f, "F": F})
                    continue
                fl = tol.floor_abs(sp, F if F != "J" else "B")
                if cls in objs.MAGNETS:
                    d = abs(float(G.depth(sp, Pl[i:i + 1])[0])) / size
                    if cls == "CylinderSegment":
                        d = min(d, float(G.cylseg_coincidence_dist(sp, Pl[i:i + 1])[0]))
                    fl *= max(1.0, 1e-3 / max(d, 1e-12)) ** 2
                ok, w = tol.close_a(b, a, fl, rtol=1e-9)
                if not ok:
                    near_axis = None
                    if cls == "CylinderSegment":
                        near_axis = bool(np.hypot(Pl[i][0], Pl[i][1]) < 0.1 * sp["dimension"][1])
                    ctx.violation({"kind": "scale-dependent-field", "cls": cgroup(cls), "where": "setup:" + wgroup(case["kinds"][i]),
                                   "own_observer": bool(case["owner"][i] == l), "scale": sbucket(f), "cylseg_near_axis": near_axis},
                                  case, {"i": i, "l": l, "base": a, "scaled_back": b, "scale": f, "ratio": w, "F": F, "local": Pl[i]})
                    return


def check_case(ctx, case):
    {"field": check_field, "mesh": check_mesh, "setup": check_setup}[case["type"]](ctx, case)


def run_shard(ctx):
    rng = ctx.rng
    while not ctx.expired():
        u = rng.random()
        if u < 0.2:
            check_case(ctx, gen_setup_case(rng))
        elif u < 0.8:
            check_case(ctx, gen_field_case(rng))
        else:
            k = int(rng.integers(-30, 31))
            check_case(ctx, {"type": "mesh", "seed": int(rng.integers(0, 2**31)), "scale": 2.0**k})


def replay(ctx, case):
    check_case(ctx, case)
