"""C03 - fields are covariant under rigid motion of the whole setup.

Metamorphic monitor over pairs of executions:
 (1) the moved setup is built FROM SCRATCH (position' = Rg.p + tg, orientation' = Rg o R entry-wise
     along the whole path, observers' = Rg.o + tg) and must return Rg.B;
 (2) the original objects moved with rotate(Rg, anchor=0, start=0).move(tg, start=0) must agree too;
 (3) pose honoured as 'local frame placed in the global frame':
     B(src@(p,R), o) = R . B(src@identity, R^-1 (o - p)).
"""
from __future__ import annotations

import numpy as np
from scipy.spatial.transform import Rotation as R

from vfw import objs, tol, regions
from vfw.oracles import geometry as G
from vfw.util import quiet, exc_info

LEVEL = "exploration"
RULE = ("asymmetric sources (open Polylines, Tetrahedra, CylinderSegment wedges, off-centre meshes, Triangles, "
        "mixed collections) with paths of length 1-5, Rg uniform / near-axis / 180deg / near-identity, |tg| from 0 "
        "to 1e3 sizes, observers at relative distance 1e-6..3 from surfaces; non-trivial = path length > 1 or "
        "generic orientation, and Rg not the identity; distinct by sha1 of the case")
ASSUMPTIONS = ["scipy Rotation algebra; tolerance grows with |tg|/distance-to-surface (position rounding)"]


def plan(tier):
    return {"shards": 8 if tier == "quick" else 16, "budget_s": 25 if tier == "quick" else 300,
            "required_counters": ["variant:scratch", "variant:moved", "variant:local_frame", "variant:local_frame_with_path",
                                  "variant:collection_about_own_position"]}


def gen_case(rng):
    n = int(rng.integers(1, 4))
    L = int(rng.choice([1, 1, 2, 3, 5]))
    srcs = []
    for _ in range(n):
        cls = str(rng.choice(["Polyline", "Tetrahedron", "CylinderSegment", "TriangularMesh", "Triangle", "Cuboid",
                              "Cylinder", "Circle", "Dipole", "Sphere"]))
        s = objs.rand_source(rng, cls, path_len=int(rng.choice([1, L])))
        srcs.append(s)
    if rng.random() < 0.25:  # wrap some of them in a collection (children share its path length)
        Lc = objs.path_len(srcs[0])
        for s in srcs:
            if objs.path_len(s) != Lc:
                P, Q = objs.rand_path(rng, Lc)
                s["position"], s["orientation"] = P, Q
        pos, ori = objs.rand_path(rng, Lc, 0.3)
        if rng.random() < 0.5 and len(srcs) >= 2:  # nest: an inner collection displaced from the outer one
            ipos, iori = objs.rand_path(rng, Lc, 1.5)
            srcs = [{"cls": "Collection", "children": srcs[1:], "position": ipos, "orientation": iori}, srcs[0]]
        srcs = [{"cls": "Collection", "children": srcs, "position": pos, "orientation": ori}]
    # observers near the first leaf at path index 0 (global frame)
    leaf = objs.leaves(srcs[0])[0]
    obs, dmin = [], np.inf
    for _ in range(int(rng.integers(1, 6))):
        q, drel, tag = regions.sample(rng, leaf, lo=-6, hi=0.5)
        obs.append(G.to_global(leaf, q)[0])
        dmin = min(dmin, drel)
        if leaf["cls"] == "CylinderSegment":   # also the extensions of its faces (finding cylseg-near-coincidence-precision)
            dmin = min(dmin, max(float(G.cylseg_coincidence_dist(leaf, np.asarray(q)[None])[0]), 1e-12))
    kind = str(rng.choice(["uniform", "axis", "pi", "near_id", "identity"], p=[0.5, 0.15, 0.15, 0.15, 0.05]))
    Rg = objs.rand_rot(rng, 1, kind)[0]
    tmag = float(rng.choice([0.0, 10 ** rng.uniform(-3, 3)]))
    d = rng.normal(size=3)
    tg = (d / np.linalg.norm(d) * tmag).tolist()
    return {"sources": srcs, "observers": np.array(obs).tolist(), "Rg": Rg, "tg": tg, "Rkind": kind,
            "dmin_rel": float(dmin), "field": str(rng.choice(list("BHJM"))),
            "sensor": bool(rng.random() < 0.3)}


def move_spec(s, Rg, tg):
    s2 = dict(s)
    P = np.array(s["position"], float)
    Q = R.from_quat(np.array(s["orientation"], float))
    s2["position"] = (Rg.apply(P) + tg).tolist()
    s2["orientation"] = (Rg * Q).as_quat().tolist()
    if "children" in s:
        s2["children"] = [move_spec(c, Rg, tg) for c in s["children"]]
    return s2


def check_case(ctx, case):
    import magpylib as magpy

    F = case["field"]
    get = getattr(magpy, "get" + F)
    Rg, tg = R.from_quat(case["Rg"]), np.array(case["tg"], float)
    O = np.array(case["observers"], float)
    specs = case["sources"]
    leaves = [l for s in specs for l in objs.leaves(s)]
    size = max(objs.size_of(l) for l in leaves)
    L = max(objs.path_len(l) for l in leaves)
    # class floors hold for observers >= 1e-3 sizes from a surface (C01's range); closer in, the library's
    # documented loss of precision near surfaces grows (measured: CylinderSegment 2e-5*S at 1e-6 sizes,
    # Polyline 1e6 eps*S next to an extension line) -> floor amplified by (1e-3/d)^2, rtol untouched
    amp = max(1.0, 1e-3 / case["dmin_rel"]) ** 2
    fl = amp * sum(tol.floor_abs(s, F) for s in specs)
    # position rounding: |tg|,|p|,|o| ~ up to (1+|tg|)/size sizes, amplified by 1/distance-to-surface
    reach = 1 + (np.linalg.norm(tg) + np.max(np.abs(O)) + 5) / size
    rtol = 1e-9 + 2e3 * np.finfo(float).eps * reach / case["dmin_rel"]
    try:
        with quiet():
            base = np.asarray(get([objs.build(s) for s in specs], O, squeeze=False))
            want = Rg.apply(base.reshape(-1, 3)).reshape(base.shape)
            O2 = Rg.apply(O) + tg
            # (1) from scratch
            v1 = np.asarray(get([objs.build(move_spec(s, Rg, tg)) for s in specs], O2, squeeze=False))
            # (2) original objects moved
            objs2 = [objs.build(s) for s in specs]
            for o in objs2:
                o.rotate(Rg, anchor=0, start=0).move(tg, start=0)
            v2 = np.asarray(get(objs2, O2, squeeze=False))
    except Exception as e:
        ctx.violation({"kind": "exception", "type": type(e).__name__}, case, exc_info(e))
        return
    nontriv = case["Rkind"] != "identity" and (L > 1 or True)
    for name, v in (("scratch", v1), ("moved", v2)):
        ctx.count("variant:" + name)
        ctx.evaluated({**case, "variant": name}, nontrivial=nontriv, n=int(np.prod(want.shape[:-1])))
        ok, w = tol.close_a(v, want, fl, rtol=rtol)
        if not ok:
            ctx.violation({"kind": "not-covariant", "variant": name, "field": F,
                           "cls": sorted({l["cls"] for l in leaves})}, case,
                          {"ratio": w, "rtol": rtol, "got": v.ravel()[:6], "want": want.ravel()[:6]})
    # (3) local frame placed in the global frame: the leaf evaluated WITH ITS WHOLE PATH and all observers
    #     in one call, against the unposed leaf evaluated at R_i^-1 (o - p_i) for every path index i
    for leaf in leaves[:2]:
        try:
            with quiet():
                posed = np.asarray(get(objs.build(leaf), O, squeeze=False))[0, :, 0]  # (path, n, 3)
                ident = objs.build({**leaf, "position": [[0.0, 0, 0]], "orientation": [[0.0, 0, 0, 1]]})
                want_l = []
                for i in range(objs.path_len(leaf)):
                    p_i, R_i = np.array(leaf["position"][i]), R.from_quat(leaf["orientation"][i])
                    loc = np.asarray(get(ident, R_i.inv().apply(O - p_i), squeeze=False))[0, 0, 0]
                    want_l.append(R_i.apply(loc))
                want_l = np.array(want_l)
        except Exception as e:
            ctx.violation({"kind": "exception", "type": type(e).__name__}, case, exc_info(e))
            return
        ctx.count("variant:local_frame")
        if objs.path_len(leaf) > 1:
            ctx.count("variant:local_frame_with_path")
        ctx.evaluated({"leaf": leaf, "obs": case["observers"], "F": F}, nontrivial=True, n=len(O) * objs.path_len(leaf))
        ok, w = tol.close_a(posed, want_l, amp * tol.floor_abs(leaf, F), rtol=rtol)
        if not ok:
            ctx.violation({"kind": "pose-not-local-frame", "cls": leaf["cls"], "field": F, "path": objs.path_len(leaf) > 1}, case,
                          {"ratio": w, "got": posed.ravel()[:3], "want": want_l.ravel()[:3]})
    # (4) a static (nested) collection rotated about ITS OWN position (anchor=None) is the rigid motion
    #     x -> Rg (x - p) + p of the whole assembly
    top = specs[0]
    if top["cls"] == "Collection" and objs.path_len(top) == 1 and all(objs.path_len(l) == 1 for l in leaves):
        try:
            with quiet():
                o4 = objs.build(top)
                o4.rotate(Rg)  # anchor None
                pc = np.array(top["position"][0])
                O4 = Rg.apply(O - pc) + pc
                v4 = np.asarray(get(o4, O4, squeeze=False))
                b4 = np.asarray(get(objs.build(top), O, squeeze=False))
            ctx.count("variant:collection_about_own_position")
            ctx.evaluated({**case, "variant": "own_position"}, nontrivial=True, n=len(O))
            ok, w = tol.close_a(v4, Rg.apply(b4.reshape(-1, 3)).reshape(b4.shape), fl, rtol=rtol)
            if not ok:
                ctx.violation({"kind": "not-covariant", "variant": "collection-about-own-position", "field": F,
                               "nested": any(c["cls"] == "Collection" for c in top["children"])}, case, {"ratio": w})
        except Exception as e:
            ctx.violation({"kind": "exception", "type": type(e).__name__}, case, exc_info(e))


def run_shard(ctx):
    while not ctx.expired():
        check_case(ctx, gen_case(ctx.rng))


def replay(ctx, case):
    check_case(ctx, case)
