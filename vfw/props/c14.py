"""C14 - returned fields obey the integral laws of magnetostatics.

The flux of B through closed boxes / spheres and the circulation of H around closed circles /
polygons are computed by adaptive quadrature (scipy cubature / quad_vec) whose integrand calls
the REAL getB / getH on batches of quadrature nodes.  Expected values are known by construction:
flux = 0 always; circulation = I x (linking number of the loop with the current), 0 for magnets and
dipoles.  Surfaces/loops: in free space, entirely inside a magnet, enclosing the source, cutting
through its boundary (capped effort).  Verdict per case: |integral - expected| <=
max(10 err_est, 1e-7 scale); err_est > 1e-2 scale => inconclusive case.
"""
from __future__ import annotations

import numpy as np
from scipy.integrate import cubature, quad_vec
from scipy.spatial.transform import Rotation as R

from vfw import objs
from vfw.oracles import geometry as G
from vfw.props.c06 import interior_point
from vfw.util import quiet, exc_info

LEVEL = "exploration"
RULE = ("sources: every magnet class, Dipole, Circle, closed Polyline loops and collections of two; closed surfaces "
        "(rotated boxes, spheres) of size 1e-2..1e2 sources in classes free / inside-magnet / enclosing / cutting; "
        "closed loops (circles, polygons) linking a current N = 0, +-1 times, passing through magnets or free; "
        "non-trivial = the surface/loop intersects or encloses a magnet or links a current; distinct by sha1")
ASSUMPTIONS = ["linking numbers and expected flux are known by construction of the surface/loop",
               "adaptive quadrature error estimates are trusted within a factor 10"]
KINDS = ["flux_free", "flux_inside", "flux_enclosing", "flux_cutting", "flux_sphere", "circ_link", "circ_nolink",
         "circ_magnet"]


def plan(tier):
    return {"shards": 16, "budget_s": 40 if tier == "quick" else 600,
            "required_counters": ["kind:" + k for k in KINDS] + ["integrand_evaluations"]}


class Integrand:
    def __init__(self, ctx, srcs, F):
        import magpylib as magpy

        self.get = getattr(magpy, "get" + F)
        self.srcs = srcs
        self.ctx = ctx
        self.maxabs = 0.0
        self.n = 0
        self.companions = None

    def __call__(self, P):
        # hostile batch composition: every integrand batch is evaluated together with a few companion
        # observers far from and close to the sources (their values are discarded); a vectorised routine
        # whose result for one row depends on the other rows of the call shows up in the integral
        n0 = len(P)
        if self.companions is not None and n0:
            P = np.concatenate([P, self.companions])
        with quiet(), np.errstate(all="ignore"):
            v = np.asarray(self.get(self.srcs, P, sumup=True, squeeze=False))[0, 0, 0].reshape(-1, 3)[:n0]
        P = P[:n0]
        self.n += len(P)
        if v.size:
            m = np.nanmax(np.linalg.norm(np.nan_to_num(v), axis=1))
            self.maxabs = max(self.maxabs, float(m))
        return np.nan_to_num(v, nan=0.0, posinf=0.0, neginf=0.0)


def box_flux(f, c, half, rot, max_sub):
    """closed box: centre c, half sizes, rotation rot (scipy). returns (flux, err, area)"""
    tot, err = 0.0, 0.0
    for ax in range(3):
        o1, o2 = [i for i in range(3) if i != ax]
        for sgn in (-1.0, 1.0):
            n = np.zeros(3)
            n[ax] = sgn
            ng = rot.apply(n)

            def g(uv, ax=ax, o1=o1, o2=o2, sgn=sgn, ng=ng):
                x = np.zeros((len(uv), 3))
                x[:, ax] = sgn * half[ax]
                x[:, o1] = uv[:, 0] * half[o1]
                x[:, o2] = uv[:, 1] * half[o2]
                return (f(rot.apply(x) + c) @ ng) * half[o1] * half[o2]
            r = cubature(g, [-1, -1], [1, 1], rtol=1e-8, atol=0, max_subdivisions=max_sub)
            tot += float(r.estimate)
            err += float(r.error)
    area = 8 * (half[0] * half[1] + half[1] * half[2] + half[0] * half[2])
    return tot, err, area


def sphere_flux(f, c, rad, max_sub):
    def g(tp):
        th, ph = tp[:, 0], tp[:, 1]
        n = np.c_[np.sin(th) * np.cos(ph), np.sin(th) * np.sin(ph), np.cos(th)]
        return np.einsum("ij,ij->i", f(c + rad * n), n) * rad**2 * np.sin(th)
    r = cubature(g, [0, 0], [np.pi, 2 * np.pi], rtol=1e-8, atol=0, max_subdivisions=max_sub * 4)
    return float(r.estimate), float(r.error), 4 * np.pi * rad**2


def loop_circulation_smooth(f, c, rad, rot, nmax=8192):
    """circle in free space: the integrand is periodic and analytic, the trapezoidal rule converges
    geometrically; N is doubled until two successive values agree, error estimate = their difference.
    Every level is ONE vectorised call of the real getH."""
    prev, n = None, 64
    while True:
        t = np.arange(n) * (2 * np.pi / n)
        p = rot.apply(np.c_[rad * np.cos(t), rad * np.sin(t), 0 * t]) + c
        dl = rot.apply(np.c_[-rad * np.sin(t), rad * np.cos(t), 0 * t])
        v = float(np.sum(np.einsum("ij,ij->i", f(p), dl)) * (2 * np.pi / n))
        if prev is not None:
            e = abs(v - prev)
            if e <= 1e-11 * f.maxabs * 2 * np.pi * rad or n >= nmax:
                return v, e, 2 * np.pi * rad
        prev, n = v, n * 2


def loop_circulation(f, c, rad, rot, breaks=None, npoly=0, limit=300):
    """circle (npoly=0) or regular polygon loop in the plane rot.(x,y), centre c"""
    if npoly == 0:
        def g(t):
            t = np.atleast_1d(t)
            p = rot.apply(np.c_[rad * np.cos(t), rad * np.sin(t), 0 * t]) + c
            dl = rot.apply(np.c_[-rad * np.sin(t), rad * np.cos(t), 0 * t])
            return float(np.einsum("ij,ij->i", f(p), dl)[0])
        v, e = quad_vec(g, 0, 2 * np.pi, epsabs=0, epsrel=1e-9, limit=limit, points=breaks)
        return float(v), float(e), 2 * np.pi * rad
    V = rot.apply(np.c_[rad * np.cos(np.linspace(0, 2 * np.pi, npoly + 1)), rad * np.sin(np.linspace(0, 2 * np.pi, npoly + 1)),
                        np.zeros(npoly + 1)]) + c
    tot, err, length = 0.0, 0.0, 0.0
    for a, b in zip(V[:-1], V[1:]):
        def g(t, a=a, b=b):
            return float(f((a + t * (b - a))[None])[0] @ (b - a))
        v, e = quad_vec(g, 0, 1, epsabs=0, epsrel=1e-9, limit=max(20, limit // npoly))
        tot += v
        err += e
        length += np.linalg.norm(b - a)
    return float(tot), float(err), float(length)


# ------------------------------------------------------------------ cases
def disc_crossings(V, c, normal, rad):
    """signed number of times the closed polyline V threads the disc (centre c, unit normal, radius rad);
    None when a crossing is too close to the rim to be decided by construction"""
    tot = 0
    for a, b in zip(V[:-1], V[1:]):
        da, db = np.dot(a - c, normal), np.dot(b - c, normal)
        if da == db or (da > 0) == (db > 0):
            continue
        t = da / (da - db)
        x = a + t * (b - a)
        rho = np.linalg.norm(x - c - np.dot(x - c, normal) * normal)
        if 0.75 * rad < rho < 1.25 * rad:
            return None
        if rho <= 0.75 * rad:
            tot += 1 if db > da else -1
    return tot


def rand_closed_polyline(rng):
    n = int(rng.integers(3, 7))
    t = np.sort(rng.uniform(0, 2 * np.pi, n))
    r = rng.uniform(0.6, 1.4, n)
    V = np.c_[r * np.cos(t), r * np.sin(t), rng.normal(size=n) * 0.1]
    V = np.r_[V, V[:1]]
    s = objs.rand_source(rng, "Polyline")
    s["vertices"] = V.tolist()
    return s


def gen_case(rng):
    # loops around wires cost one vectorised call per refinement level: drawn more often than the surface cases
    kind = str(rng.choice(KINDS, p=[0.07, 0.07, 0.07, 0.11, 0.07, 0.33, 0.2, 0.08]))
    case = {"kind": kind, "seed": int(rng.integers(0, 2**31))}
    if kind in ("circ_link", "circ_nolink"):
        s = objs.rand_source(rng, "Circle") if rng.random() < 0.5 else rand_closed_polyline(rng)
        case["sources"] = [s]
    elif kind in ("flux_inside", "circ_magnet", "flux_cutting"):
        s0 = objs.rand_source(rng, str(rng.choice(objs.MAGNETS)))
        if kind == "flux_cutting" and rng.random() < 0.25:
            # cylinder segments described with section angles outside (-180, 360): the inside test works on a
            # second representation of the observer azimuth there
            s0 = objs.rand_source(rng, "CylinderSegment")
            d = s0["dimension"]
            w = float(rng.uniform(40, 200))
            p1 = float(rng.choice([rng.uniform(-360, -190 - w if w < 160 else -360 + 1), rng.uniform(200, 360)]))
            s0["dimension"] = [d[0], d[1], d[2], p1, p1 + w]
            case["wrapped_angles"] = True
        case["sources"] = [s0]
        if rng.random() < 0.35:
            # a twin listed FIRST: same body (same local geometry), other polarization, placed elsewhere; the
            # surface / loop is still built around s0, now the later member of a vectorised group of equal bodies
            tw = dict(s0)
            tw["polarization"] = objs.rand_vec(rng)
            tw["position"] = (np.array(s0["position"]) + 3.0 * objs.size_of(s0)).tolist()
            case["sources"] = [s0, tw]
            case["twin_first"] = True
    else:
        # (a single Triangle is an open charged sheet, not a magnet: its B is not solenoidal and the property
        #  does not list it)
        cls = str(rng.choice(objs.MAGNETS + ["Dipole", "Circle"]))
        srcs = [objs.rand_source(rng, cls)]
        if rng.random() < 0.3:
            s2 = objs.rand_source(rng, str(rng.choice(objs.MAGNETS + ["Circle"])))
            s2["position"] = (np.array(s2["position"]) + 2.5).tolist()
            srcs.append(s2)
        case["sources"] = srcs
    if len(case["sources"]) == 1 and rng.random() < 0.4:
        # the whole setup in another length unit (nm .. km): the laws hold at every scale
        from vfw.props.c12 import scale_spec

        u = float(10.0 ** rng.choice([-9, -6, -3, 3]))
        case["sources"] = [scale_spec(x, u) for x in case["sources"]]
        case["unit"] = u
    return case


def check_case(ctx, case):
    rng = np.random.default_rng(case["seed"])
    kind = case["kind"]
    specs = case["sources"]
    s = specs[0]
    size = objs.size_of(s)
    unit = float(case.get("unit", 1.0))
    p0, R0 = np.array(s["position"][0]), R.from_quat(s["orientation"][0])
    quick = ctx.tier != "thorough"
    # effort caps (per face / per loop); CylinderSegment costs ~20x more per node
    slow = any(x["cls"] == "CylinderSegment" for x in specs)
    max_sub = (40 if quick else 400) // (6 if slow else 1) + 4
    qlimit = (150 if quick else 1500) // (6 if slow else 1)
    try:
        with quiet():
            srcs = [objs.build(x) for x in specs]
            if case.get("twin_first"):
                srcs = srcs[::-1]
        rot = R.from_quat(objs.rand_rot(rng, 1, "uniform")[0])
        expected = 0.0
        comp_dirs = np.random.default_rng(case["seed"] + 1).normal(size=(6, 3))
        comp_dirs /= np.linalg.norm(comp_dirs, axis=1)[:, None]
        companions = p0 + comp_dirs * size * np.array([100.0, 300.0, 30.0, 0.7, 1.3, 2.0])[:, None]
        if kind.startswith("flux"):
            f = Integrand(ctx, srcs, "B")
            f.companions = companions
            if kind == "flux_free":
                d = rng.normal(size=3)
                d /= np.linalg.norm(d)
                half = size * 10 ** rng.uniform(-2, 0.3, 3)
                c = p0 + d * (1.2 * size + 2.0 * np.linalg.norm(half) + 0.2 * unit)
                if len(specs) > 1:
                    c = c - 3.0  # away from the second source (placed at +2.5)
                val, err, area = box_flux(f, c, half, rot, max_sub)
            elif kind == "flux_inside":
                ip = interior_point(s)
                dep = float(G.depth(s, ip[None])[0])
                half = np.full(3, 0.3 * dep / np.sqrt(3)) * rng.uniform(0.3, 1.0, 3)
                val, err, area = box_flux(f, G.to_global(s, ip)[0], half, rot, max_sub)
            elif kind == "flux_enclosing":
                ext = sum(objs.size_of(x) for x in specs) + (4.5 if len(specs) > 1 else 0)
                half = ext * rng.uniform(1.1, 3.0, 3)
                c = p0 + (1.25 if len(specs) > 1 else 0.0) + rng.normal(size=3) * 0.1 * size
                val, err, area = box_flux(f, c, half, rot, max_sub)
            elif kind == "flux_cutting":
                if s["cls"] in ("Cuboid", "Cylinder") and rng.random() < 0.6:
                    # sharp variant: box aligned with the body's local frame, off-centre, cutting faces
                    half = size * rng.uniform(0.2, 0.7, 3)
                    cl = rng.uniform(-0.4, 0.4, 3) * size
                    val, err, area = box_flux(f, G.to_global(s, cl)[0], half, R0, max_sub * 2)
                else:
                    half = size * rng.uniform(0.2, 0.8, 3)
                    val, err, area = box_flux(f, p0 + rng.normal(size=3) * 0.3 * size, half, rot, max_sub)
            else:
                rad = size * 10 ** rng.uniform(-0.5, 0.8)
                c = p0 + rng.normal(size=3) * size * 0.3
                val, err, area = sphere_flux(f, c, rad, max_sub)
            scale = f.maxabs * area
        else:
            f = Integrand(ctx, srcs, "H")
            f.companions = companions
            if kind in ("circ_link", "circ_nolink"):
                I = s["current"]
                if s["cls"] == "Circle":
                    r0 = s["diameter"] / 2
                    wp_local, tang = np.array([r0, 0.0, 0.0]), np.array([0.0, 1.0, 0.0])
                    span = r0
                else:
                    V = np.array(s["vertices"])
                    k = int(rng.integers(0, len(V) - 1))
                    wp_local, tang = (V[k] + V[k + 1]) / 2, (V[k + 1] - V[k]) / np.linalg.norm(V[k + 1] - V[k])
                    span = 0.4 * min(np.linalg.norm(V[k + 1] - V[k]), 0.5 * unit)
                # loop plane perpendicular to the wire tangent -> the loop normal is +-tangent
                sign = float(rng.choice([-1, 1]))
                zax = tang * sign
                xax = np.cross(zax, [0.3, 0.5, 0.8])
                xax /= np.linalg.norm(xax)
                yax = np.cross(zax, xax)
                lrot = R.from_matrix(np.c_[xax, yax, zax])
                rad = span * float(10 ** rng.uniform(-2.5, -0.3))
                if kind == "circ_link":
                    cl = wp_local + lrot.apply([rad * rng.uniform(-0.4, 0.4), rad * rng.uniform(-0.4, 0.4), 0])
                    expected = I * sign
                else:
                    cl = wp_local + lrot.apply([rad * 1.6, rad * 1.1, 0.0])
                    expected = 0.0
                if s["cls"] == "Polyline":
                    # linking number by construction: signed crossings of ALL segments through the loop's disc
                    n = disc_crossings(np.array(s["vertices"]), cl, zax, rad)
                    if n is None:
                        ctx.count("loop_too_close_to_another_segment")
                        return
                    expected = I * n
                    if (kind == "circ_link") != (n != 0):
                        ctx.count("linking_by_construction_differs_from_intent")
                npoly = int(rng.choice([0, 0, 0, 5]))
                if npoly == 0:
                    val, err, area = loop_circulation_smooth(f, G.to_global(s, cl)[0], rad, R0 * lrot)
                    ctx.count("smooth_loops")
                else:
                    val, err, area = loop_circulation(f, G.to_global(s, cl)[0], rad, R0 * lrot, npoly=npoly, limit=qlimit)
            else:  # loop through / around a magnet: no free current
                rad = size * float(10 ** rng.uniform(-1, 0.3))
                c = p0 + rng.normal(size=3) * size * 0.4
                val, err, area = loop_circulation(f, c, rad, rot, npoly=int(rng.choice([0, 4, 7])), limit=qlimit)
            scale = f.maxabs * area
    except Exception as e:
        ctx.violation({"kind": "integrand-raised", "case": kind, "type": type(e).__name__, "cls": s["cls"]}, case, exc_info(e))
        return
    ctx.count("integrand_evaluations", f.n)
    if not np.isfinite(val) or scale == 0:
        ctx.count("degenerate_cases")
        return
    if err > 1e-2 * scale:
        ctx.count("integral_not_resolved")
        ctx.inconclusive_case("quadrature error estimate > 1e-2 scale", {"kind": kind, "cls": s["cls"]})
        return
    ctx.count("kind:" + kind)
    ctx.count("cls:" + s["cls"])
    if unit != 1.0:
        ctx.count("unit:%g" % unit)
    if case.get("wrapped_angles"):
        ctx.count("cutting_wrapped_cylinder_segments")
    ctx.evaluated(case, nontrivial=kind not in ("flux_free", "circ_nolink"))
    dev = abs(val - expected)
    from vfw import tol

    # the library's own documented precision (class floor per node) integrated over the surface / loop
    lib_floor = 10 * sum(tol.floor_abs(x, "B" if kind.startswith("flux") else "H") for x in specs) * area
    allowed = max(10 * err, 1e-7 * scale, lib_floor)
    if kind in ("flux_cutting", "circ_magnet"):
        # discontinuous integrand (the surface / loop crosses a magnet boundary): the adaptive rule's error
        # estimate is not reliable there (thorough run: estimate 7e-7, true deviation 2.5e-4 = 4e-6 scale);
        # a missing or misplaced inside term shifts the integral by 0.1..1 scale
        allowed = max(allowed, 30 * err, 3e-5 * scale)
    if kind == "flux_cutting":
        ctx.count("cutting_resolution_1e-3" if err < 1e-3 * scale else "cutting_resolution_1e-2")
    if dev > allowed:
        ctx.violation({"kind": "integral-law", "law": "flux" if kind.startswith("flux") else "circulation", "case": kind,
                       "cls": s["cls"]}, case,
                      {"integral": val, "expected": expected, "err_est": err, "scale": scale, "dev/scale": dev / scale})


def run_shard(ctx):
    while not ctx.expired():
        check_case(ctx, gen_case(ctx.rng))


def replay(ctx, case):
    check_case(ctx, case)
