"""C19 - show() draws each object where it is and does not alter it.

Draw-model monitor on the public boundary show(..., backend='plotly', return_fig=True): traces are
attributed to objects by legendgroup (it embeds repr(obj) incl. id), to roles by type/mode; the
length unit is read from the axis titles.  With decorations switched off through documented style
flags every drawn body vertex must lie on the surface of the body placed at one of the displayed
path indices (exact geometric predicates of vfw.oracles.geometry) and the vertices attributed to
an index must span the body's full extent; current lines must pass through the conductor's
points; the path trace through the path positions; glyphs (Sensor, Dipole, CustomSource) must
contain the object position.  Digests of objects, styles and defaults before/after, also when
show() raises.
"""
from __future__ import annotations

import re

import numpy as np
from scipy.spatial.transform import Rotation as R

from vfw import objs, digest as D
from vfw.oracles import geometry as G
from vfw.util import quiet, exc_info

LEVEL = "exploration"
RULE = ("1-3 objects per figure from every class (+ a collection of two), generic asymmetric poses, paths of length "
        "1-4, frame selections (default / every i-th / explicit list), units_length in {m, mm, um, cm, km, auto}, "
        "object sizes 1e-6..1e3, decorations off (deciding) / on (coverage only); non-trivial = path length > 1 or "
        "unit != m or collection; distinct by sha1 of the case")
ASSUMPTIONS = ["trace attribution via legendgroup (= repr of the top-level object)", "unit prefixes m/mm/um/cm/km/nm",
               "round bodies are polygonalised: extent tolerance 1-cos(pi/8); vertices still have to be ON the surface"]
UNIT = {"m": 1.0, "mm": 1e-3, "µm": 1e-6, "um": 1e-6, "cm": 1e-2, "km": 1e3, "nm": 1e-9, "dm": 0.1, "Mm": 1e6}
CLASSES = objs.SOURCE_CLASSES + ["Sensor", "CustomSource", "Collection"]


def plan(tier):
    return {"shards": 16, "budget_s": 40 if tier == "quick" else 600,
            "required_counters": ["figures", "body_vertices_checked", "extent_checks", "conductor_checks",
                                  "path_trace_checks", "glyph_checks", "nonmodification_checks", "bad_kwarg_cases", "mpl_figures",
                                  "animated_figures", "animation_frames_checked", "animations_with_subsampled_path",
                                  "failing_trace_raised", "nested_collections_drawn",
                                  "mesh_status_figures", "mesh_status_points_checked", "mesh_status_disconnected_drawn_multi_part"]
            + ["cls:" + c for c in CLASSES]}


def gen_obj(rng, cls, L, scale):
    if cls == "Collection":
        kids = [gen_obj(rng, str(rng.choice(["Cuboid", "Sphere", "Cylinder"])), L, scale) for _ in range(2)]
        P, Q = objs.rand_path(rng, L, 1.0)
        if rng.random() < 0.5:   # nesting: one member sits two (or three) collection levels deep
            P2, Q2 = objs.rand_path(rng, L, 1.0)
            inner = {"cls": "Collection", "children": [kids[1]], "position": (np.array(P2) * scale).tolist(), "orientation": Q2}
            if rng.random() < 0.3:
                inner = {"cls": "Collection", "children": [inner], "position": (np.array(P2) * scale).tolist(), "orientation": Q2}
            kids = [kids[0], inner]
        return {"cls": "Collection", "children": kids, "position": (np.array(P) * scale).tolist(), "orientation": Q}
    if cls == "Sensor":
        s = objs.rand_sensor(rng, path_len=L, pixel=None)
        s["position"] = (rng.normal(size=(L, 3)) * scale * 2).tolist()
        s["handedness"] = "right"
        return s
    if cls == "CustomSource":
        P, Q = objs.rand_path(rng, L, 2.0)
        return {"cls": "CustomSource", "position": (np.array(P) * scale).tolist(), "orientation": Q}
    s = objs.rand_source(rng, cls, path_len=L, pos_scale=2.0)
    s["orientation"] = objs.rand_rot(rng, L, "uniform")
    for k in ("dimension",):
        if k in s:
            d = np.array(s[k], float)
            s[k] = (np.r_[d[:3] * scale, d[3:]] if cls == "CylinderSegment" else d * scale).tolist()
    if "diameter" in s:
        s["diameter"] *= scale
    if "vertices" in s:
        s["vertices"] = (np.array(s["vertices"]) * scale).tolist()
    s["position"] = (np.array(s["position"]) * scale).tolist()
    if cls == "Triangle" and rng.random() < 0.4:
        # polarization along the facet normal (or none): the display switches to a thin prism for the colour gradient
        v = np.array(s["vertices"])
        nrm = np.cross(v[1] - v[0], v[2] - v[1])
        s["polarization"] = (nrm / np.linalg.norm(nrm) * float(rng.choice([-0.7, 0.0, 1.3]))).tolist()
        s["normal_polarization"] = True
    return s


def gen_case(rng):
    L = int(rng.choice([1, 3, 4]))
    scale = float(10.0 ** float(rng.choice([-6, -3, -2, 0, 0, 0, 2, 3])))
    n = int(rng.integers(1, 4))
    specs = [gen_obj(rng, str(rng.choice(CLASSES)), int(rng.choice([1, L])), scale) for _ in range(n)]
    fr = rng.random()
    frames = None if fr < 0.35 else (int(rng.integers(1, 3)) if fr < 0.6 else sorted(set(int(x) for x in rng.integers(0, L + 1, 2))))
    case = {"specs": specs, "frames": frames, "units": str(rng.choice(["m", "m", "mm", "µm", "cm", "km", "auto"])),
            "decorations": bool(rng.random() < 0.25), "scale": scale}
    if rng.random() < 0.08:
        return gen_mesh_status_case(rng, case)
    if rng.random() < 0.2 and specs[0]["cls"] not in ("Collection", "Sensor", "Dipole", "CustomSource"):
        case["backend"] = "matplotlib"  # one object per figure: artists carry no object identity
        case["specs"] = specs[:1]
    elif rng.random() < 0.12:
        # animation: bodies on long paths, fewer frames than path entries (the displayed indices are a subset)
        La = int(rng.integers(5, 16))
        case["specs"] = [gen_obj(rng, str(rng.choice(["Cuboid", "Cylinder", "Sphere", "Tetrahedron", "TriangularMesh"])),
                                 int(rng.choice([La, La, 1])), scale) for _ in range(int(rng.integers(1, 3)))]
        case["frames"] = None
        case["animation"] = {"arg": [True, 2, 3][int(rng.integers(0, 3))],   # (a float time, documented, is rejected: not C19)
                             "maxframes": [None, 3, 4, 7][int(rng.integers(0, 4))],
                             "fps": [None, 2, 10][int(rng.integers(0, 3))]}
    return case


def gen_mesh_status_case(rng, case):
    """A TriangularMesh with the status displays of the documented style family `mesh` switched on: the grid,
    the open edges, the disconnected parts and the self-intersecting facets.  The mesh is a union of 1-3 closed
    parts (optionally one facet removed = open edges, optionally two parts overlapping = self-intersection), facets
    and vertices in random order and winding, so that the first facet can belong to any part."""
    from vfw.oracles import meshes as MZ

    nparts = int(rng.integers(1, 4))
    parts, overlap = [], bool(rng.random() < 0.3) and nparts > 1
    for k in range(nparts):
        kind = str(rng.choice(["box", "tetra", "hull", "prism"]))
        if kind == "box":
            V, F = MZ.box(tuple(rng.uniform(0.5, 1.5, 3)))
        elif kind == "tetra":
            V, F = MZ.tetra(rng)
        elif kind == "hull":
            V, F = MZ.convex_hull(rng)
        else:
            V, F = MZ.prism(int(rng.integers(3, 7)))
        V = V - V.mean(axis=0)
        V = V / np.abs(V).max()                     # every part fits into [-1, 1]^3
        off = np.array([3.0 * k, 0.0, 0.0]) if not (overlap and k == 1) else np.array([0.35, 0.3, 0.25])
        parts.append((V + off, F))
    V, F = MZ.union(parts)
    removed = bool(rng.random() < 0.3)
    V, F = MZ.transform(rng, V, F, flips=bool(rng.random() < 0.5))
    if removed:
        F = F[1:]
    scale = case["scale"]
    P, Q = objs.rand_path(rng, 1, 2.0)
    spec = {"cls": "TriangularMesh", "vertices": (V * scale).tolist(), "faces": F.tolist(),
            "polarization": [0.1, -0.2, 0.9], "position": (np.array(P) * scale).tolist(), "orientation": Q,
            "check_open": "ignore", "check_disconnected": "ignore", "check_selfintersecting": "ignore",
            "reorient_faces": str(rng.choice(["ignore", "skip"]))}
    modes = [m for m in ("grid", "open", "disconnected", "selfintersecting") if rng.random() < 0.6] or ["disconnected"]
    return {"specs": [spec], "frames": None, "units": case["units"], "decorations": False, "scale": scale,
            "mesh_status": {"modes": modes, "nparts": nparts, "overlap": overlap, "facet_removed": removed,
                            "backend": str(rng.choice(["plotly", "plotly", "matplotlib"]))}}


def check_case_mesh_status(ctx, case):
    """show() of a TriangularMesh with status displays on: must draw (not raise), must leave vertices, faces and the
    field as they were, and (plotly) every drawn point of the status lines/markers is a vertex of the posed mesh"""
    import magpylib as magpy

    spec, ms = case["specs"][0], case["mesh_status"]
    try:
        with quiet():
            obj = objs.build(spec)
            # the status data are computed lazily and cached on the object: compute all of them first, so that a
            # cache filled by show() is not mistaken for a modification
            for fn in ("check_open", "check_disconnected", "check_selfintersecting", "get_faces_subsets",
                       "get_open_edges", "get_selfintersecting_faces"):
                getattr(obj, fn)()
            size = float(np.abs(np.array(spec["vertices"])).max())
            probes = (np.array([[0.05, 0.02, -0.03], [4.1, 0.7, 1.3], [-2.0, 1.0, 0.5], [1.5, -0.2, 0.1]]) * size
                      + np.array(spec["position"][0]))
            B0 = np.asarray(obj.getB(probes))
    except Exception as e:
        ctx.inconclusive_case("setup: " + repr(e)[:100], None)
        return
    kw = {f"style_mesh_{m}_show": True for m in ms["modes"]}
    kw.update(style_magnetization_show=False, style_orientation_show=False)
    if case["units"] != "auto":
        kw["units_length"] = case["units"]
    before = (D.digest_many([obj]), D.digest_defaults())
    V0, F0 = np.array(obj.vertices), np.array(obj.faces)
    ctx.count("mesh_status_figures")
    for m in ms["modes"]:
        ctx.count("mesh_status_mode:" + m)
    if ms["nparts"] > 1 and "disconnected" in ms["modes"]:
        ctx.count("mesh_status_disconnected_drawn_multi_part")
    key = {"cls": "TriangularMesh", "mesh_status": True, "backend": ms["backend"]}
    fig = None
    try:
        with quiet():
            if ms["backend"] == "plotly":
                fig = magpy.show(obj, backend="plotly", return_fig=True, **kw)
            else:
                import matplotlib.pyplot as plt
                f = magpy.show(obj, backend="matplotlib", return_fig=True, **kw)
                plt.close(f)
    except Exception as e:
        ctx.violation({**key, "kind": "show-raised", "type": type(e).__name__,
                       "function": (exc_info(e)["where"] or ["?"])[-1].split(":")[-1]}, case, exc_info(e))
        return
    ctx.evaluated(case, nontrivial=True)
    ctx.count("nonmodification_checks")
    after = (D.digest_many([obj]), D.digest_defaults())
    same_arrays = np.array_equal(V0, np.array(obj.vertices)) and np.array_equal(F0, np.array(obj.faces))
    if after != before or not same_arrays:
        ctx.violation({**key, "kind": "show-modified-objects-or-defaults"}, case,
                      {"objects": D.diff(before[0], after[0]), "defaults": D.diff(before[1], after[1]), "same_arrays": bool(same_arrays)})
        return
    with quiet():
        B1 = np.asarray(obj.getB(probes))
    if not np.allclose(B0, B1, rtol=1e-9, atol=1e-12 * float(np.abs(B0).max() + 1e-300), equal_nan=True):
        ctx.violation({**key, "kind": "field-changed-by-show"}, case, {"B_before": B0.tolist(), "B_after": B1.tolist()})
        return
    if fig is None:
        return
    title = fig.layout.scene.xaxis.title.text or ""
    m = re.search(r"\(([^)]+)\)", title)
    if not m or m.group(1) not in UNIT:
        ctx.violation({**key, "kind": "axis-title-without-known-unit"}, case, {"title": title})
        return
    unit = UNIT[m.group(1)]
    rot = R.from_quat(np.array(spec["orientation"][0]))
    Vg = rot.apply(V0) + np.array(spec["position"][0])
    tol = 1e-6 * size
    for tr in fig.data:
        if (tr.legendgroup or "") != repr(obj):
            continue
        pts = trace_points(tr)
        pts = pts[np.isfinite(pts).all(axis=1)] * unit
        if not len(pts):
            continue
        d = np.linalg.norm(pts[:, None, :] - Vg[None, :, :], axis=2).min(axis=1)
        ctx.count("mesh_status_points_checked", len(pts))
        if d.max() > tol:
            ctx.violation({**key, "kind": "mesh-status-point-not-a-vertex", "trace": tr.type}, case,
                          {"worst": float(d.max()), "size": size, "trace_name": tr.name})
            return


def expected_indices(frames, L):
    if frames is None:
        return None  # one copy at some path index (the documentation does not say which)
    if isinstance(frames, int):
        return None
    return sorted({min(i, L - 1) for i in frames})


def trace_points(tr):
    if tr.x is None:
        return np.zeros((0, 3))
    return np.c_[np.asarray(tr.x, float), np.asarray(tr.y, float), np.asarray(tr.z, float)]


def check_body(ctx, case, spec, pts_m, key):
    """pts_m: drawn vertices in metres. every vertex on the surface at some path index; extent covered"""
    L = objs.path_len(spec)
    size = objs.size_of(spec)
    dist = np.array([G.dist_to_surface(spec, G.to_local(spec, pts_m, m=i)) for i in range(L)])  # (L, n)
    best = dist.min(axis=0)
    ctx.count("body_vertices_checked", len(pts_m))
    tolv = 1e-6 * size + 1e-9 * (np.max(np.abs(pts_m)) if len(pts_m) else 0)
    if spec.get("normal_polarization"):
        # documented display trick: a facet polarized along its normal is drawn as a thin prism (two copies of the
        # facet 1e-3 of its size apart) so that the colour gradient shows; thin means thin at every facet size
        tolv += 2e-3 * size
    if np.any(best > tolv):
        j = int(np.argmax(best))
        ctx.violation({**key, "kind": "drawn-vertex-off-surface"}, case,
                      {"vertex_m": pts_m[j], "dist": float(best[j]), "size": size, "n_bad": int(np.sum(best > tolv))})
        return False
    shown = sorted({int(i) for i in np.argmin(dist, axis=0)})
    exp = expected_indices(case["frames"], L)
    if exp is not None:
        # every vertex must sit on the body at one of the requested indices
        ok_any = (dist[exp].min(axis=0) <= tolv)
        if not np.all(ok_any):
            ctx.violation({**key, "kind": "copy-at-unrequested-path-index"}, case, {"requested": exp, "shown": shown})
            return False
        shown = exp
    # extent: the vertices on the body at index i must span its bounding box in the local frame
    ext_tol = 0.0 if spec["cls"] in ("Cuboid", "Tetrahedron", "TriangularMesh", "Triangle") else 1 - np.cos(np.pi / 8)
    for i in shown:
        m = dist[i] <= tolv
        loc = G.to_local(spec, pts_m[m], m=i)
        ctx.count("extent_checks")
        lo, hi = body_bbox(spec)
        if len(loc) == 0 or np.any(loc.min(axis=0) > lo + ext_tol * (hi - lo) + 1e-6 * size) or \
                np.any(loc.max(axis=0) < hi - ext_tol * (hi - lo) - 1e-6 * size):
            ctx.violation({**key, "kind": "drawn-extent-too-small"}, case,
                          {"index": i, "drawn_lo": loc.min(axis=0) if len(loc) else None, "drawn_hi": loc.max(axis=0) if len(loc) else None,
                           "body_lo": lo, "body_hi": hi})
            return False
    return True


def body_bbox(spec):
    c = spec["cls"]
    if c == "Cuboid":
        h = np.array(spec["dimension"]) / 2
        return -h, h
    if c == "Cylinder":
        r, h = spec["dimension"][0] / 2, spec["dimension"][1] / 2
        return np.array([-r, -r, -h]), np.array([r, r, h])
    if c == "Sphere":
        r = spec["diameter"] / 2
        return -np.full(3, r), np.full(3, r)
    if c == "CylinderSegment":
        r1, r2, h, p1, p2 = spec["dimension"]
        t = np.deg2rad(np.linspace(p1, p2, 721))
        pts = np.r_[np.c_[r2 * np.cos(t), r2 * np.sin(t)], np.c_[r1 * np.cos(t), r1 * np.sin(t)]]
        return np.r_[pts.min(axis=0), -h / 2], np.r_[pts.max(axis=0), h / 2]
    v = np.array(spec["vertices"], float)
    return v.min(axis=0), v.max(axis=0)


def check_obj(ctx, case, spec, traces, unit, key):
    cls = spec["cls"]
    if cls == "Collection":
        # children are merged into the collection's group: every body vertex on some child, every child covered
        ok = True
        mesh = [trace_points(t) * unit for t in traces if t.type == "mesh3d"]
        pts = np.concatenate(mesh) if mesh else np.zeros((0, 3))
        kids = [k for k in objs.leaves(spec) if k["cls"] != "Sensor"]   # members at every depth
        if any(k["cls"] == "Collection" for k in spec["children"]):
            ctx.count("nested_collections_drawn")
        if len(pts):
            d = np.array([min_dist_any_index(k, pts) for k in kids])
            size = max(objs.size_of(k) for k in kids)
            best = d.min(axis=0)
            ctx.count("body_vertices_checked", len(pts))
            if np.any(best > 1e-6 * size + 1e-9 * np.max(np.abs(pts))):
                ctx.violation({**key, "kind": "drawn-vertex-off-surface"}, case, {"dist": float(best.max()), "size": size})
                return
            for ki, k in enumerate(kids):
                mine = pts[d[ki] <= 1e-6 * objs.size_of(k) + 1e-9 * np.max(np.abs(pts))]
                if not check_body(ctx, case, k, mine, {**key, "child": k["cls"]}):
                    return
        elif not case["decorations"]:
            ctx.violation({**key, "kind": "no-body-trace"}, case, {})
        return
    P = np.array(spec["position"], float)
    mesh = [trace_points(t) * unit for t in traces if t.type == "mesh3d"]
    lines = [trace_points(t) * unit for t in traces if t.type == "scatter3d" and (t.mode or "") == "lines"]
    paths = [trace_points(t) * unit for t in traces if t.type == "scatter3d" and "markers" in (t.mode or "")]
    if cls in objs.MAGNETS + ["Triangle"]:
        if not mesh:
            ctx.violation({**key, "kind": "no-body-trace"}, case, {})
            return
        pts = np.concatenate(mesh)
        if case["decorations"]:
            # decorations are not the body: only require that the vertices which ARE on the body cover its extent
            dist = min_dist_any_index(spec, pts)
            keep = dist <= 1e-6 * objs.size_of(spec) + 1e-9 * np.max(np.abs(pts))
            if spec.get("normal_polarization"):
                # thin-prism display of the facet: its corners sit on the facet normal through a corner of the facet,
                # at most 2e-3 sizes from it (decoration vertices near the facet are not on those lines)
                V = np.array(spec["vertices"], float)
                nh = np.cross(V[1] - V[0], V[2] - V[1])
                nh /= np.linalg.norm(nh)
                sz = objs.size_of(spec)
                for i in range(objs.path_len(spec)):
                    rel = G.to_local(spec, pts, m=i)[:, None, :] - V[None, :, :]
                    along = rel @ nh
                    across = np.linalg.norm(rel - along[..., None] * nh, axis=2)
                    keep |= np.any((np.abs(along) <= 2e-3 * sz) & (across <= 1e-6 * sz + 1e-9 * np.max(np.abs(pts))), axis=1)
            pts = pts[keep]
        check_body(ctx, case, spec, pts, key)
    elif cls in ("Polyline", "Circle"):
        if not lines:
            ctx.violation({**key, "kind": "no-conductor-trace"}, case, {})
            return
        pts = np.concatenate(lines)
        pts = pts[np.all(np.isfinite(pts), axis=1)]
        ctx.count("conductor_checks")
        L = objs.path_len(spec)
        size = objs.size_of(spec)
        exp = expected_indices(case["frames"], L)
        idxs = exp if exp is not None else list(range(L))
        found = 0
        for i in idxs:
            loc = G.to_local(spec, pts, m=i)
            if cls == "Polyline":
                V = np.array(spec["vertices"], float)
                dmin = np.array([np.min(np.linalg.norm(loc - v, axis=1)) for v in V])
                hit = np.all(dmin <= 1e-6 * size + 1e-9 * np.max(np.abs(pts)))
            else:
                r0 = spec["diameter"] / 2
                on = (np.abs(np.hypot(loc[:, 0], loc[:, 1]) - r0) <= 1e-6 * r0 + 1e-9 * np.max(np.abs(pts))) & \
                     (np.abs(loc[:, 2]) <= 1e-6 * r0 + 1e-9 * np.max(np.abs(pts)))
                ang = np.sort(np.arctan2(loc[on, 1], loc[on, 0]))
                hit = len(ang) >= 8 and np.max(np.diff(np.r_[ang, ang[0] + 2 * np.pi])) < 2 * np.pi / 5
            found += bool(hit)
            if exp is not None and not hit:
                ctx.violation({**key, "kind": "conductor-not-drawn-at-requested-index"}, case, {"index": i})
                return
        if exp is None and found == 0:
            ctx.violation({**key, "kind": "conductor-line-misses-the-conductor"}, case, {})
            return
    else:  # glyphs: Sensor, Dipole, CustomSource
        allp = [p for p in mesh + lines if len(p)]
        ctx.count("glyph_checks")
        if not allp:
            if cls != "CustomSource":
                ctx.violation({**key, "kind": "no-glyph"}, case, {})
            return
        pts = np.concatenate(allp)
        pts = pts[np.all(np.isfinite(pts), axis=1)]
        lo, hi = pts.min(axis=0), pts.max(axis=0)
        ext = np.max(hi - lo)
        inside = [np.all(p >= lo - 1e-6 * ext) and np.all(p <= hi + 1e-6 * ext) for p in P]
        if not any(inside):
            ctx.violation({**key, "kind": "glyph-does-not-contain-object-position"}, case,
                          {"bbox_lo": lo, "bbox_hi": hi, "positions": P})
            return
    # path trace passes through the path positions
    if len(P) > 1:
        ctx.count("path_trace_checks")
        if not paths:
            ctx.violation({**key, "kind": "no-path-trace"}, case, {})
            return
        pp = np.concatenate(paths)
        d = np.array([np.min(np.linalg.norm(pp - p, axis=1)) for p in P])
        if np.any(d > 1e-6 * (np.max(np.abs(P)) + 1e-300)):
            ctx.violation({**key, "kind": "path-trace-misses-path-position"}, case, {"dist": float(d.max())})


def min_dist_any_index(spec, pts):
    return np.min(np.array([G.dist_to_surface(spec, G.to_local(spec, pts, m=i)) for i in range(objs.path_len(spec))]), axis=0)


class PseudoTrace:
    """matplotlib artist presented like a plotly trace to the draw model"""

    def __init__(self, type_, mode, xyz, group):
        self.type, self.mode, self.legendgroup = type_, mode, group
        self.x, self.y, self.z = xyz[:, 0], xyz[:, 1], xyz[:, 2]


def check_case_mpl(ctx, case):
    """single object through the matplotlib backend (data of the artists, Agg canvas)"""
    import matplotlib.pyplot as plt

    import magpylib as magpy

    spec = case["specs"][0]
    try:
        with quiet():
            obj = objs.build(spec)
    except Exception as e:
        ctx.inconclusive_case("setup: " + repr(e)[:100], None)
        return
    kw = dict(style_magnetization_show=False, style_arrow_show=False, style_orientation_show=False)
    if case["frames"] is not None:
        kw["style_path_frames"] = case["frames"]
    if case["units"] != "auto":
        kw["units_length"] = case["units"]
    before = (D.digest_many([obj]), D.digest_defaults())
    try:
        with quiet():
            fig = magpy.show(obj, backend="matplotlib", return_fig=True, **kw)
    except Exception as e:
        ctx.violation({"kind": "show-raised", "backend": "matplotlib", "type": type(e).__name__, "units": case["units"]}, case, exc_info(e))
        return
    try:
        ctx.count("mpl_figures")
        ctx.evaluated({**case, "backend": "matplotlib"}, nontrivial=objs.path_len(spec) > 1 or case["units"] != "m")
        if (D.digest_many([obj]), D.digest_defaults()) != before:
            ctx.violation({"kind": "show-modified-objects-or-defaults", "backend": "matplotlib"}, case, {})
            return
        ax = fig.axes[0]
        m = re.search(r"\(([^)]+)\)", ax.get_xlabel() or "")
        if not m or m.group(1) not in UNIT:
            ctx.violation({"kind": "axis-title-without-known-unit", "backend": "matplotlib"}, case, {"title": ax.get_xlabel()})
            return
        unit = UNIT[m.group(1)]
        traces = []
        for col in ax.collections:
            faces = getattr(col, "_faces", None)  # matplotlib >= 3.9: (n_faces, n_verts, 3), possibly masked
            vec = getattr(col, "_vec", None)  # older: homogeneous (4, N)
            if faces is not None and np.asarray(faces).size:
                xyz = np.asarray(np.ma.filled(faces, np.nan), float).reshape(-1, 3)
                traces.append(PseudoTrace("mesh3d", None, xyz[np.all(np.isfinite(xyz), axis=1)], "x"))
            elif vec is not None and np.asarray(vec).size:
                traces.append(PseudoTrace("mesh3d", None, np.asarray(vec)[:3].T, "x"))
        for ln in ax.lines:
            x, y, z = ln.get_data_3d()
            xyz = np.c_[np.asarray(x, float), np.asarray(y, float), np.asarray(z, float)]
            has_marker = ln.get_marker() not in (None, "None", "", " ")
            traces.append(PseudoTrace("scatter3d", "markers+lines" if has_marker else "lines", xyz, "x"))
        if not traces:
            if spec["cls"] not in ("CustomSource",):
                ctx.violation({"kind": "object-not-drawn", "backend": "matplotlib", "cls": spec["cls"]}, case, {})
            return
        check_obj(ctx, {**case, "decorations": False}, spec, traces, unit, {"cls": spec["cls"], "decorations": False, "backend": "matplotlib"})
    finally:
        plt.close("all")


def check_case_anim(ctx, case):
    """animated figure (plotly frames): the frame announced as 'path index: k' shows every body at its pose of
    path index k (objects with shorter paths at their last pose); nothing is modified"""
    import magpylib as magpy

    try:
        with quiet():
            objects = [objs.build(s) for s in case["specs"]]
    except Exception as e:
        ctx.inconclusive_case("setup: " + repr(e)[:100], None)
        return
    a = case["animation"]
    kw = dict(style_magnetization_show=False, style_orientation_show=False, style_path_show=False, animation=a["arg"])
    if a["maxframes"] is not None:
        kw["animation_maxframes"] = a["maxframes"]
    if a["fps"] is not None:
        kw["animation_fps"] = a["fps"]
    if case["units"] != "auto":
        kw["units_length"] = case["units"]
    before = (D.digest_many(objects), D.digest_defaults())
    try:
        with quiet():
            fig = magpy.show(*objects, backend="plotly", return_fig=True, **kw)
    except Exception as e:
        ctx.violation({"kind": "show-raised", "type": type(e).__name__, "units": case["units"], "animation": True}, case, exc_info(e))
        return
    ctx.count("animated_figures")
    ctx.evaluated(case, nontrivial=True)
    ctx.count("nonmodification_checks")
    after = (D.digest_many(objects), D.digest_defaults())
    if after != before:
        ctx.violation({"kind": "show-modified-objects-or-defaults", "animation": True}, case,
                      {"objects": D.diff(before[0], after[0]), "defaults": D.diff(before[1], after[1])})
        return
    Lmax = max(objs.path_len(s) for s in case["specs"])
    if Lmax == 1 or not fig.frames:
        ctx.count("animation_without_path")
        return
    title = fig.layout.scene.xaxis.title.text or ""
    m = re.search(r"\(([^)]+)\)", title)
    if not m or m.group(1) not in UNIT:
        ctx.violation({"kind": "axis-title-without-known-unit", "animation": True}, case, {"title": title})
        return
    unit = UNIT[m.group(1)]
    if len(fig.frames) < Lmax:
        ctx.count("animations_with_subsampled_path")
    for fr in fig.frames:
        t = (fr.layout.title.text if fr.layout and fr.layout.title else "") or ""
        mm = re.search(r"path index:\s*0*(\d+)", t)
        if not mm:
            ctx.inconclusive_case("frame title does not announce a path index: " + t[:60], None)
            return
        ind = int(mm.group(1)) - 1
        ctx.count("animation_frames_checked")
        for o, sp in zip(objects, case["specs"]):
            traces = [tr for tr in fr.data if (tr.legendgroup or "") == repr(o) and tr.type == "mesh3d"]
            if not traces:
                ctx.violation({"cls": sp["cls"], "kind": "object-not-drawn", "animation": True}, case, {"frame": t})
                return
            pts = np.concatenate([trace_points(tr) for tr in traces]) * unit
            frozen = objs.freeze(sp, ind)
            if not check_body(ctx, {**case, "frames": None}, frozen, pts, {"cls": sp["cls"], "decorations": False, "animation": True}):
                return


def check_case(ctx, case):
    import magpylib as magpy

    if case.get("mesh_status"):
        return check_case_mesh_status(ctx, case)
    if case.get("backend") == "matplotlib":
        return check_case_mpl(ctx, case)
    if case.get("animation"):
        return check_case_anim(ctx, case)

    try:
        with quiet():
            objects = [objs.build(s) for s in case["specs"]]
            for o, s in zip(objects, case["specs"]):
                if s["cls"] == "CustomSource":
                    pass
    except Exception as e:
        ctx.inconclusive_case("setup: " + repr(e)[:100], None)
        return
    kw = {}
    if not case["decorations"]:
        kw.update(style_magnetization_show=False, style_arrow_show=False, style_orientation_show=False)
    if case["frames"] is not None:
        kw["style_path_frames"] = case["frames"]
    if case["units"] != "auto":
        kw["units_length"] = case["units"]
    before = (D.digest_many(objects), D.digest_defaults())
    try:
        with quiet():
            fig = magpy.show(*objects, backend="plotly", return_fig=True, **kw)
    except Exception as e:
        ctx.violation({"kind": "show-raised", "type": type(e).__name__, "units": case["units"]}, case, exc_info(e))
        return
    ctx.count("figures")
    nontriv = any(objs.path_len(s) > 1 for s in case["specs"]) or case["units"] != "m" or any(s["cls"] == "Collection" for s in case["specs"])
    ctx.evaluated(case, nontrivial=bool(nontriv))
    ctx.count("nonmodification_checks")
    after = (D.digest_many(objects), D.digest_defaults())
    if after != before:
        ctx.violation({"kind": "show-modified-objects-or-defaults"}, case,
                      {"objects": D.diff(before[0], after[0]), "defaults": D.diff(before[1], after[1])})
        return
    title = fig.layout.scene.xaxis.title.text or ""
    m = re.search(r"\(([^)]+)\)", title)
    if not m or m.group(1) not in UNIT:
        ctx.violation({"kind": "axis-title-without-known-unit"}, case, {"title": title})
        return
    unit = UNIT[m.group(1)]
    if case["units"] != "auto" and UNIT[case["units"]] != unit:
        ctx.violation({"kind": "announced-unit-differs-from-requested"}, case, {"title": title, "requested": case["units"]})
        return
    ctx.count("unit:" + m.group(1))
    for o, s in zip(objects, case["specs"]):
        traces = [t for t in fig.data if (t.legendgroup or "") == repr(o)]
        ctx.count("cls:" + s["cls"])
        key = {"cls": s["cls"], "decorations": case["decorations"]}
        if not traces:
            if s["cls"] == "Collection" and not s["children"]:
                continue
            ctx.violation({**key, "kind": "object-not-drawn"}, case, {"groups": sorted({t.legendgroup for t in fig.data if t.legendgroup})[:5]})
            continue
        try:
            check_obj(ctx, case, s, traces, unit, key)
        except Exception as e:
            ctx.inconclusive_case("draw model failed: " + repr(e)[:200], {"cls": s["cls"]})
    # show() that fails while the traces are being generated (a user supplied extra 3d-model trace whose data is
    # incomplete at display time) must not leave the temporary display style on the objects
    if ctx.rng.random() < 0.12:
        ctx.count("failing_trace_cases")
        state = {"ready": True}

        def trace_kwargs():
            kw = {"x": [0, 1], "y": [0, 1]}
            if state["ready"]:
                kw["z"] = [0, 1]
            return kw
        victim = objects[int(ctx.rng.integers(0, len(objects)))]
        try:
            with quiet():
                victim.style.model3d.add_trace(backend="generic", constructor="scatter3d", kwargs=trace_kwargs)
            state["ready"] = False
            before2 = (D.digest_many(objects), D.digest_defaults())
            raised2 = None
            try:
                with quiet():
                    magpy.show(*objects, backend="plotly", return_fig=True, style_opacity=0.3)
            except Exception as e:
                raised2 = e
            if raised2 is None:
                ctx.count("failing_trace_did_not_fail")
            else:
                ctx.count("failing_trace_raised")
            after2 = (D.digest_many(objects), D.digest_defaults())
            if after2 != before2:
                ctx.violation({"kind": "failing-show-modified-objects-or-defaults", "how": "trace generation raised"}, case,
                              {"objects": D.diff(before2[0], after2[0]), "defaults": D.diff(before2[1], after2[1]),
                               "raised": exc_info(raised2) if raised2 else None})
                return
        except Exception as e:
            ctx.inconclusive_case("failing-trace setup: " + repr(e)[:120], None)
        return
    # show() with a bad keyword must not modify anything either
    if ctx.rng.random() < 0.15:
        ctx.count("bad_kwarg_cases")
        try:
            with quiet():
                magpy.show(*objects, backend="plotly", return_fig=True, style_nosuchthing_size=3)
        except Exception:
            pass
        if (D.digest_many(objects), D.digest_defaults()) != before:
            ctx.violation({"kind": "failing-show-modified-objects-or-defaults"}, case, {})


def run_shard(ctx):
    while not ctx.expired():
        check_case(ctx, gen_case(ctx.rng))


def replay(ctx, case):
    check_case(ctx, case)
