"""C18 - copy() yields an equal, fully independent, parentless object.

Structural monitor on live data: the id-sets of all mutable nodes reachable from original and
copy must be disjoint and no pair of arrays may share memory (alias sanitizer); behavioural
monitor: a catalogue of mutations applied to one side must leave the other side's deep digest
unchanged (both directions); value equality via digests with the label masked and getB
equality; forest invariants (C11 checker) on the copied subtree; the original tree's digest is
unchanged by copy(); keyword overrides reach the copy only.
"""
from __future__ import annotations

import types

import numpy as np
from scipy.spatial.transform import Rotation as R

from vfw import objs, digest as D
from vfw.util import quiet, exc_info

LEVEL = "exploration"
RULE = ("every object class and collection trees (depth <= 3), with/without parent, style initialised / pending "
        "kwargs / untouched, copy keyword overrides, followed by one mutation from a catalogue on original or copy; "
        "non-trivial = collection subtree, or object with parent, or style not default, or overrides used; "
        "distinct by sha1 of (spec, style mode, override, mutation, direction)")
ASSUMPTIONS = ["scipy Rotation objects are immutable (sharing one is not shared mutable state)",
               "functions, classes, modules and the global defaults object are not object state"]

MUTATIONS = ["trace_edit", "trace_kwargs_edit", "move", "rotate", "position_inplace", "set_position", "set_orientation", "geometry", "excitation",
             "style_label", "style_color", "style_nested", "style_update", "pixel", "child_move", "add_child",
             "remove_child", "child_style", "array_inplace"]


def plan(tier):
    return {"shards": 8 if tier == "quick" else 16, "budget_s": 25 if tier == "quick" else 240,
            "required_counters": ["copies_checked", "alias_checks", "mutations_applied", "overrides_checked",
                                  "collection_copies", "with_parent", "failed_copies_checked", "failed_copies_with_parent"]}


# ------------------------------------------------------------------ alias sanitizer
def reachable(root, skip_parent=True):
    import magpylib as magpy

    seen, out = set(), {}
    stack = [(root, True)]
    while stack:
        x, is_root = stack.pop()
        if id(x) in seen or x is None:
            continue
        seen.add(id(x))
        if isinstance(x, (str, bytes, int, float, bool, complex, type, types.FunctionType, types.BuiltinFunctionType,
                          types.ModuleType, types.MethodType, R, np.generic, staticmethod, property)):
            continue
        if isinstance(x, np.ndarray):
            out[id(x)] = x
            if x.base is not None:
                stack.append((x.base, False))
            continue
        if isinstance(x, dict):
            out[id(x)] = x
            for k, v in x.items():
                stack.append((v, False))
            continue
        if isinstance(x, (list, set)):
            out[id(x)] = x
            for v in x:
                stack.append((v, False))
            continue
        if isinstance(x, tuple):
            for v in x:
                stack.append((v, False))
            continue
        d = getattr(x, "__dict__", None)
        if d is not None:
            out[id(x)] = x
            for k, v in d.items():
                if is_root and skip_parent and k == "_parent":
                    continue
                stack.append((v, False))
    return out


def defaults_ids():
    import magpylib as magpy

    return set(reachable(magpy.defaults, skip_parent=False))


# ------------------------------------------------------------------ case
def gen_case(rng):
    kind = str(rng.choice(["source", "sensor", "collection"], p=[0.5, 0.15, 0.35]))
    if kind == "source":
        spec = objs.rand_source(rng, path_len=int(rng.choice([1, 3])))
    elif kind == "sensor":
        spec = objs.rand_sensor(rng, path_len=int(rng.choice([1, 3])))
    else:
        from vfw.props.c10 import rand_tree

        spec = rand_tree(rng, int(rng.integers(0, 3)), int(rng.choice([1, 2])), [0])
    style_mode = str(rng.choice(["untouched", "kwargs", "initialised", "label", "model3d_trace"]))
    override = str(rng.choice(["none", "position", "style_label", "style_opacity", "geometry", "style_dict",
                               "style_dict_label", "style_dict_nested", "bad_position", "bad_style", "bad_style_value",
                               "bad_geometry", "uncopyable", "position_own", "position_own_reversed", "attribute_own"]))
    return {"spec": spec, "style_mode": style_mode, "with_parent": bool(rng.random() < 0.4), "override": override,
            "mutation": str(rng.choice(MUTATIONS)), "direction": str(rng.choice(["orig", "copy"])),
            "mut_seed": int(rng.integers(0, 2**31))}


def prepare(case):
    import magpylib as magpy

    spec = dict(case["spec"])
    if case["style_mode"] == "kwargs":
        spec["style"] = {"color": "red", "opacity": 0.5}
    obj = objs.build(spec)
    if case["style_mode"] == "initialised":
        obj.style.opacity = 0.3
        obj.style.path.line.width = 5
    elif case["style_mode"] == "label":
        obj.style.label = "thing_07"
    elif case["style_mode"] == "model3d_trace":
        # a user defined extra 3d model: containers (list of Trace3d with args / kwargs) inside the style
        obj.style.model3d.add_trace(backend="generic", constructor="Scatter3d",
                                    kwargs={"x": [0, 1], "y": [0, 0], "z": [0, 1], "mode": "lines"}, show=True)
    if case["override"] == "uncopyable":
        # deepcopy of this object fails part-way: copy() must raise and leave the original tree as it was
        from vfw.props.c11 import uncopyable_field_func

        bad = magpy.misc.CustomSource(field_func=uncopyable_field_func())
        if hasattr(obj, "_children"):
            obj.add(bad)
        else:
            obj = bad
    parent = None
    if case["with_parent"]:
        sib = magpy.Sensor()
        parent = magpy.Collection(sib, obj, position=(1, 2, 3))
    return obj, parent


def override_kwargs(case, obj):
    o = case["override"]
    if o == "position":
        return {"position": (7.0, 8.0, 9.0)}
    if o in ("position_own", "position_own_reversed"):
        # the override is an array the original itself handed out (its position property, or a view of it):
        # the copy must store its own data
        v = obj.position
        return {"position": v[::-1] if (o.endswith("reversed") and np.ndim(v) == 2) else v}
    if o == "attribute_own":
        for a in ("vertices", "dimension", "pixel", "polarization", "moment"):
            v = getattr(obj, a, None)
            if isinstance(v, np.ndarray) and type(obj).__name__ != "TriangularMesh":
                return {a: v}
        return {"position": obj.position}
    if o == "style_label":
        return {"style_label": "overridden"}
    if o == "style_opacity":
        return {"style_opacity": 0.123}
    if o == "style_dict":
        return {"style": {"color": "blue"}}
    if o == "style_dict_label":
        return {"style": {"label": "mine"}}
    if o == "style_dict_nested":
        return {"style": {"path": {"line": {"width": 7}}, "opacity": 0.25}}
    if o == "bad_position":
        return {"position": "nowhere"}
    if o == "bad_style":
        return {"style_nosuchproperty": 1}
    if o == "bad_style_value":
        return {"style_opacity": "very"}
    if o == "bad_geometry":
        for a, v in (("dimension", "big"), ("diameter", (1, 2)), ("handedness", "up"), ("current", "much"), ("moment", (1.0, 2)),
                     ("vertices", 3.0)):
            if hasattr(obj, a):
                return {a: v}
        return {"position": (1, 2)}
    if o == "geometry":
        for a, v in (("dimension", None), ("diameter", 3.21), ("handedness", "left"), ("current", 9.5), ("moment", (1.0, 2, 3))):
            if hasattr(obj, a) and a != "dimension":
                return {a: v}
    return {}


def mutate(obj, name, seed):
    """apply one mutation; returns False if it does not apply to this object"""
    import magpylib as magpy

    rng = np.random.default_rng(seed)
    kids = getattr(obj, "_children", None)
    if name == "move":
        obj.move(rng.normal(size=3))
    elif name == "rotate":
        obj.rotate_from_angax(33, "y", anchor=0)
    elif name == "position_inplace":
        obj.position[...] = 5.5  # write through the returned view
    elif name == "set_position":
        obj.position = rng.normal(size=(2, 3))
    elif name == "set_orientation":
        obj.orientation = R.from_rotvec(rng.normal(size=3))
    elif name == "geometry":
        for a in ("dimension", "diameter", "vertices"):
            v = getattr(obj, a, None)
            if v is not None and type(obj).__name__ != "TriangularMesh":
                setattr(obj, a, np.array(v) * 1.5 if a != "diameter" else v * 1.5)
                return True
        return False
    elif name == "excitation":
        for a in ("polarization", "current", "moment"):
            v = getattr(obj, a, None)
            if v is not None:
                setattr(obj, a, np.array(v) * 2 if a != "current" else v * 2)
                return True
        return False
    elif name == "style_label":
        obj.style.label = "mutated"
    elif name == "style_color":
        obj.style.color = "green"
    elif name == "style_nested":
        obj.style.path.marker.size = 11
    elif name == "style_update":
        obj.style.update(opacity=0.77, path_line_width=9)
    elif name == "pixel":
        if not hasattr(obj, "pixel"):
            return False
        obj.pixel = [(1, 2, 3), (4, 5, 6)]
    elif name == "child_move":
        if not kids:
            return False
        kids[0].move((0.5, 0, 0))
    elif name == "add_child":
        if kids is None:
            return False
        obj.add(magpy.Sensor())
    elif name == "remove_child":
        if not kids:
            return False
        obj.remove(kids[-1])
    elif name == "child_style":
        if not kids:
            return False
        kids[0].style.color = "pink"
    elif name in ("trace_edit", "trace_kwargs_edit"):
        data = obj.style.model3d.data
        if not data:
            return False
        if name == "trace_edit":
            data[0].show = not data[0].show
            data[0].scale = 3.0
        else:
            data[0].kwargs["x"][0] = 99
            data[0].kwargs["extra"] = "edited"
    elif name == "array_inplace":
        for a in ("_position", "_polarization", "_dimension", "_vertices", "_pixel", "_moment", "_faces"):
            v = getattr(obj, a, None)
            if isinstance(v, np.ndarray) and v.size:
                v.flat[0] += 1
                return True
        return False
    return True


def check_case(ctx, case):
    import magpylib as magpy
    from vfw.props import c11

    must_fail = case["override"].startswith("bad_") or case["override"] == "uncopyable"
    try:
        with quiet():
            obj, parent = prepare(case)
            root = parent if parent is not None else obj
            before_tree = D.digest_tree(root)
            kw = override_kwargs(case, obj)
    except Exception as e:
        ctx.inconclusive_case("setup failed: " + repr(e)[:150], case)
        return
    import copy as _copy

    kw_given = _copy.deepcopy(kw)     # what the caller asked for (a faulty copy() may write into the dicts it is handed)
    try:
        with quiet():
            cp = obj.copy(**kw)
    except Exception as e:
        if not must_fail:
            ctx.violation({"kind": "copy-raised", "cls": case["spec"]["cls"], "type": type(e).__name__,
                           "override": case["override"]}, case, exc_info(e))
            return
        # a copy() that fails part-way: the original tree is as it was (values, parent/children links)
        ctx.evaluated(case, nontrivial=True)
        ctx.count("failed_copies_checked")
        if case["with_parent"]:
            ctx.count("failed_copies_with_parent")
        with quiet():
            after_tree = D.digest_tree(root)
        if after_tree != before_tree:
            ctx.violation({"cls": case["spec"]["cls"], "kind": "failed-copy-changed-original", "override": case["override"]},
                          case, {"diff": D.diff(before_tree, after_tree), "raised": exc_info(e)})
        return
    if must_fail:
        ctx.violation({"kind": "invalid-override-accepted", "cls": case["spec"]["cls"], "override": case["override"]}, case,
                      {"kw": repr(kw)})
        return
    cls = case["spec"]["cls"]
    key = {"cls": cls}
    nontriv = cls == "Collection" or case["with_parent"] or case["style_mode"] != "untouched" or bool(kw)
    ctx.evaluated(case, nontrivial=bool(nontriv))
    ctx.count("copies_checked")
    if cls == "Collection":
        ctx.count("collection_copies")
    if case["with_parent"]:
        ctx.count("with_parent")
    # original tree untouched by copy()
    with quiet():
        after_tree = D.digest_tree(root)
    if after_tree != before_tree:
        ctx.violation({**key, "kind": "copy-changed-original"}, case, {"diff": D.diff(before_tree, after_tree)})
        return
    if type(cp) is not type(obj):
        ctx.violation({**key, "kind": "class-differs"}, case, {"copy": type(cp).__name__})
        return
    if cp._parent is not None:
        ctx.violation({**key, "kind": "copy-has-parent"}, case, {})
        return
    # value equality (label masked, parent masked) when no override
    if not kw:
        do = [tuple(x for x in d if not (isinstance(x, tuple) and x and x[0] in ("parent", "children", "sources", "sensors", "collections")))
              for d in D.digest_tree(obj, label=False)]
        dc = [tuple(x for x in d if not (isinstance(x, tuple) and x and x[0] in ("parent", "children", "sources", "sensors", "collections")))
              for d in D.digest_tree(cp, label=False)]
        if do != dc:
            ctx.violation({**key, "kind": "copy-value-differs"}, case, {"diff": D.diff(tuple(do), tuple(dc))})
            return
        # same field
        try:
            with quiet():
                if cls == "Sensor" or (cls == "Collection" and not obj.sources_all):
                    src = magpy.misc.Dipole(moment=(1, 2, 3), position=(0.3, 0.2, 0.1))
                    if cls == "Sensor" or obj.sensors_all:
                        b0, b1 = magpy.getB(src, obj, pixel_agg="mean"), magpy.getB(src, cp, pixel_agg="mean")
                    else:
                        b0 = b1 = 0
                else:
                    b0, b1 = magpy.getB(obj, (3.3, 2.2, 1.1)), magpy.getB(cp, (3.3, 2.2, 1.1))  # collections holding both: sources only
            if not np.allclose(b0, b1, rtol=1e-9, atol=0, equal_nan=True):
                ctx.violation({**key, "kind": "copy-field-differs"}, case, {"orig": b0, "copy": b1})
                return
        except Exception as e:
            ctx.violation({**key, "kind": "copy-field-raised", "type": type(e).__name__}, case, exc_info(e))
            return
    else:
        ctx.count("overrides_checked")
        # the override reached the copy and not the original
        for k, v in kw_given.items():
            if k == "position" and not np.allclose(cp.position, v):
                ctx.violation({**key, "kind": "override-not-applied", "override": k}, case, {"copy": cp.position})
                return
            if k == "style_label" and cp.style.label != v:
                ctx.violation({**key, "kind": "override-not-applied", "override": k}, case, {"copy": cp.style.label})
                return
            if k == "style_opacity" and cp.style.opacity != v:
                ctx.violation({**key, "kind": "override-not-applied", "override": k}, case, {"copy": cp.style.opacity})
                return
            if k == "style":
                flat = []

                def walk(d, path):
                    for kk, vv in d.items():
                        walk(vv, path + [kk]) if isinstance(vv, dict) else flat.append((path + [kk], vv))
                walk(v, [])
                for path, want in flat:
                    got = cp.style
                    for a in path:
                        got = getattr(got, a)
                    if got != want:
                        ctx.violation({**key, "kind": "override-not-applied", "override": "style." + ".".join(path)}, case,
                                      {"copy": got, "want": want})
                        return
            if k not in ("position", "style") and not k.startswith("style_"):
                got = getattr(cp, k)
                if not np.array_equal(np.asarray(got, dtype=object if isinstance(got, str) else None), np.asarray(v, dtype=object if isinstance(v, str) else None)):
                    ctx.violation({**key, "kind": "override-not-applied", "override": k}, case, {"copy": got, "want": v})
                    return
    # forest consistency inside the copy
    if cls == "Collection":
        class U:  # minimal universe for the C11 checker
            pass
        u = U()
        u.objs = D.walk(cp)
        u.register = lambda o: None
        bad = c11.check_invariants(u)
        if bad:
            ctx.violation({**key, "kind": "copied-subtree-inconsistent", "invariant": bad[0]}, case, {"what": bad[1]})
            return
        ido = {id(o) for o in D.walk(obj)}
        if any(id(o) in ido for o in D.walk(cp)):
            ctx.violation({**key, "kind": "copy-shares-descendant"}, case, {})
            return
    # alias sanitizer
    glob = ctx.__dict__.setdefault("_defaults_ids", defaults_ids())
    ro = {k: v for k, v in reachable(obj).items() if k not in glob}
    rc = {k: v for k, v in reachable(cp).items() if k not in glob}
    ctx.count("alias_checks")
    shared = set(ro) & set(rc)
    if shared:
        ex = ro[next(iter(shared))]
        ctx.violation({**key, "kind": "shared-mutable-object", "type": type(ex).__name__}, case, {"n": len(shared), "repr": repr(ex)[:200]})
        return
    ao = [v for v in ro.values() if isinstance(v, np.ndarray) and v.size]
    ac = [v for v in rc.values() if isinstance(v, np.ndarray) and v.size]
    for a in ao:
        for b in ac:
            if np.shares_memory(a, b):
                ctx.violation({**key, "kind": "arrays-share-memory"}, case, {"shape": a.shape})
                return
    # behavioural independence
    a, b = (obj, cp) if case["direction"] == "orig" else (cp, obj)
    with quiet():
        db = D.digest_tree(b)
        try:
            applied = mutate(a, case["mutation"], case["mut_seed"])
        except Exception as e:
            ctx.count("mutation_raised:" + type(e).__name__)
            applied = True
        da = D.digest_tree(b)
    if applied:
        ctx.count("mutations_applied")
        ctx.count("mutation:" + case["mutation"])
    if da != db:
        ctx.violation({**key, "kind": "mutation-leaked", "mutation": case["mutation"], "direction": case["direction"]},
                      case, {"diff": D.diff(db, da)})


def run_shard(ctx):
    while not ctx.expired():
        check_case(ctx, gen_case(ctx.rng))


def replay(ctx, case):
    check_case(ctx, case)
