"""Loop sanitizer installed in every worker: back-edge budgets on the data-dependent loops
of the elliptic-integral routines, so a non-terminating evaluation surfaces as a
NonTermination exception with a stack (logical-step verdict, independent of machine load)
instead of killing the shard by watchdog."""
from __future__ import annotations

from vfw import probes

BUDGET = 2000
_PR = None


def loop_functions():
    from magpylib._src.fields import special_cel as C
    from magpylib._src.fields import special_el3 as E

    out = []
    for mod, names in ((C, ("cel0", "celv", "cel_iter0", "cel_iterv")), (E, ("el30", "el3v"))):
        for n in names:
            f = getattr(mod, n, None)
            if f is not None:
                out.append(f)
    return out


def install():
    global _PR
    if _PR is not None:
        return _PR
    pr = probes.Probes()
    for f in loop_functions():
        pr.loop_budget(f, BUDGET)
    pr.start()
    _PR = pr
    return pr


def get():
    return _PR
