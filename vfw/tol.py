"""Tolerance model of DESIGN section 4. Floors are fixed a priori (documented precision
loss per class) and are never re-fitted to make a run pass."""
from __future__ import annotations

import numpy as np

from vfw import objs

EPS = np.finfo(float).eps
FLOOR_CLASS = {
    "Cuboid": 1e4, "Cylinder": 1e4, "Sphere": 1e4, "Dipole": 1e4, "Circle": 1e4,
    # Polyline: was 1e6 while the end-point terms cancelled like (rho/d)^2 next to a segment's extension line
    # (measured while building C03: 7e5 eps * S at 1.6e-6 sizes from an extension line); that cancellation was
    # repaired in the library (fix 44e02e0), so the floor is that of the other closed-form classes again
    "Polyline": 1e4,
    "Triangle": 1e6, "Tetrahedron": 1e6, "TriangularMesh": 1e6, "CylinderSegment": 1e8,
}
MU0 = 4e-7 * np.pi


def floor_abs(spec, field="B"):
    """absolute floor (in units of `field`) for one source spec or a collection spec"""
    if spec["cls"] == "Collection":
        return sum(floor_abs(c, field) for c in spec.get("children", [])) or 0.0
    if spec["cls"] == "Sensor":
        return 0.0
    if spec["cls"] == "CustomSource":
        return 1e-9  # affine test functions of O(1..10) magnitude
    f = FLOOR_CLASS[spec["cls"]] * EPS * objs.exc_scale(spec)
    if field in ("H", "M"):
        f /= MU0
    return f


def close_a(got, ref, floor, rtol=1e-9):
    """kind (a): same formula, different route. returns (ok, worst ratio err/allowed)"""
    got = np.asarray(got, float)
    ref = np.asarray(ref, float)
    if got.shape != ref.shape:
        return False, np.inf
    if got.size == 0:
        return True, 0.0
    d = np.abs(got - ref)
    both_nan = np.isnan(got) & np.isnan(ref)
    same_inf = np.isinf(got) & (got == ref)
    d = np.where(both_nan | same_inf, 0.0, d)
    if got.shape[-1] == 3:
        n = np.maximum(np.linalg.norm(np.nan_to_num(got, posinf=0, neginf=0), axis=-1, keepdims=True),
                       np.linalg.norm(np.nan_to_num(ref, posinf=0, neginf=0), axis=-1, keepdims=True))
    else:
        n = np.maximum(np.abs(got), np.abs(ref))
    allowed = rtol * n + floor + 1e-300
    ratio = d / allowed
    if np.any(np.isnan(ratio)):
        return False, np.inf
    w = float(np.max(ratio))
    return w <= 1.0, w
