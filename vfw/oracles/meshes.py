"""Mesh zoo with ground truth by construction + independent checkers (C16)."""
from __future__ import annotations

import itertools

import numpy as np


# ------------------------------------------------------------------ construction (outward faces)
def orient_outward_convex(V, F):
    c = V.mean(axis=0)
    F = F.copy()
    for i, f in enumerate(F):
        a, b, cc = V[f]
        if np.dot(np.cross(b - a, cc - a), a - c) < 0:
            F[i] = f[::-1]
    return F


def convex_hull(rng, n=None):
    from scipy.spatial import ConvexHull

    pts = rng.normal(size=(n or int(rng.integers(5, 14)), 3))
    h = ConvexHull(pts)
    used = np.unique(h.simplices)
    remap = -np.ones(len(pts), int)
    remap[used] = np.arange(len(used))
    V = pts[used]
    return V, orient_outward_convex(V, remap[h.simplices])


def box(d=(1.0, 1.0, 1.0), c=(0.0, 0.0, 0.0)):
    V = np.array([[x, y, z] for x in (-0.5, 0.5) for y in (-0.5, 0.5) for z in (-0.5, 0.5)]) * np.array(d) + np.array(c)
    F = np.array([[0, 1, 3], [0, 3, 2], [4, 6, 7], [4, 7, 5], [0, 4, 5], [0, 5, 1], [2, 3, 7], [2, 7, 6], [0, 2, 6], [0, 6, 4],
                  [1, 5, 7], [1, 7, 3]])
    return V, orient_outward_convex(V, F)


def tetra(rng=None):
    V = np.array([[0.0, 0, 0], [1, 0, 0], [0, 1, 0], [0.2, 0.3, 1]]) if rng is None else rng.normal(size=(4, 3))
    F = np.array([[0, 2, 1], [0, 1, 3], [1, 2, 3], [0, 3, 2]])
    return V, orient_outward_convex(V, F)


def ear_clip(poly):
    """triangulate a simple CCW polygon (n,2) -> list of index triples"""
    idx = list(range(len(poly)))
    tris = []

    def area2(a, b, c):
        return (b[0] - a[0]) * (c[1] - a[1]) - (b[1] - a[1]) * (c[0] - a[0])

    def inside(p, a, b, c):
        # non-strict: a vertex lying on the boundary of the candidate ear blocks it too
        return area2(a, b, p) >= -1e-12 and area2(b, c, p) >= -1e-12 and area2(c, a, p) >= -1e-12
    guard = 0
    while len(idx) > 3 and guard < 10000:
        guard += 1
        for k in range(len(idx)):
            i, j, l = idx[k - 1], idx[k], idx[(k + 1) % len(idx)]
            a, b, c = poly[i], poly[j], poly[l]
            if area2(a, b, c) <= 1e-12:
                continue
            if any(inside(poly[m], a, b, c) for m in idx if m not in (i, j, l)):
                continue
            tris.append((i, j, l))
            idx.pop(k)
            break
    tris.append(tuple(idx))
    return tris


def extrude(poly, h=1.0):
    """closed outward-oriented mesh of a simple CCW polygon extruded along z"""
    poly = np.array(poly, float)
    n = len(poly)
    V = np.r_[np.c_[poly, np.zeros(n)], np.c_[poly, np.full(n, h)]]
    F = []
    for a, b, c in ear_clip(poly):
        F.append((a, c, b))  # bottom: normal -z
        F.append((a + n, b + n, c + n))  # top: +z
    for i in range(n):
        j = (i + 1) % n
        F.append((i, j, j + n))
        F.append((i, j + n, i + n))
    return V, np.array(F)


SHAPES = {
    "L": [(0, 0), (2, 0), (2, 1), (1, 1), (1, 2), (0, 2)],
    "U": [(0, 0), (3, 0), (3, 2), (2, 2), (2, 1), (1, 1), (1, 2), (0, 2)],
    "star": [(np.cos(t) * (1 if k % 2 == 0 else 0.45), np.sin(t) * (1 if k % 2 == 0 else 0.45))
             for k, t in enumerate(np.linspace(0, 2 * np.pi, 10, endpoint=False))],
    "T": [(0, 0), (1, 0), (1, 2), (2, 2), (2, 3), (-1, 3), (-1, 2), (0, 2)],
}


def prism(n, r=1.0, h=1.0):
    t = np.linspace(0, 2 * np.pi, n, endpoint=False)
    return extrude(np.c_[r * np.cos(t), r * np.sin(t)], h)


def torus(n=8, m=6, Rr=1.0, r=0.35):
    V = []
    for i in range(n):
        for j in range(m):
            u, v = 2 * np.pi * i / n, 2 * np.pi * j / m
            V.append(((Rr + r * np.cos(v)) * np.cos(u), (Rr + r * np.cos(v)) * np.sin(u), r * np.sin(v)))
    V = np.array(V)
    F = []
    for i in range(n):
        for j in range(m):
            a, b = i * m + j, ((i + 1) % n) * m + j
            c, d = ((i + 1) % n) * m + (j + 1) % m, i * m + (j + 1) % m
            F += [(a, b, c), (a, c, d)]
    F = np.array(F)
    if signed_volume(V, F) < 0:
        F = F[:, ::-1]
    return V, F


def union(parts):
    Vs, Fs, off = [], [], 0
    for V, F in parts:
        Vs.append(V)
        Fs.append(F + off)
        off += len(V)
    return np.concatenate(Vs), np.concatenate(Fs)


# ------------------------------------------------------------------ independent checkers
def signed_volume(V, F):
    a, b, c = V[F[:, 0]], V[F[:, 1]], V[F[:, 2]]
    return float(np.einsum("ij,ij->i", a, np.cross(b, c)).sum() / 6)


def open_edges(F):
    cnt = {}
    for f in F:
        for i in range(3):
            e = tuple(sorted((int(f[i]), int(f[(i + 1) % 3]))))
            cnt[e] = cnt.get(e, 0) + 1
    return [e for e, n in cnt.items() if n != 2]


def components(F):
    parent = {}

    def find(x):
        parent.setdefault(x, x)
        while parent[x] != x:
            parent[x] = parent[parent[x]]
            x = parent[x]
        return x
    for f in F:
        r = [find(int(v)) for v in f]
        parent[r[1]] = r[0]
        parent[r[2]] = r[0]
    groups = {}
    for i, f in enumerate(F):
        groups.setdefault(find(int(f[0])), []).append(i)
    return list(groups.values())


def consistently_oriented(F):
    """every directed edge appears exactly once (closed, consistently wound)"""
    seen = set()
    for f in F:
        for i in range(3):
            e = (int(f[i]), int(f[(i + 1) % 3]))
            if e in seen:
                return False
            seen.add(e)
    return all((b, a) in seen for a, b in seen)


def all_outward(V, F):
    """closed + consistently wound + positive volume per connected component"""
    for comp in components(F):
        Fc = F[comp]
        if open_edges(Fc) or not consistently_oriented(Fc) or signed_volume(V, Fc) <= 0:
            return False
    return True


# ------------------------------------------------------------------ transformations
def transform(rng, V, F, perm_faces=True, flips=True, renumber=True):
    V, F = V.copy(), F.copy()
    if renumber:
        p = rng.permutation(len(V))  # new index of old vertex i is inv[i]
        inv = np.empty_like(p)
        inv[p] = np.arange(len(p))
        V = V[p]
        F = inv[F]
    if flips:
        m = rng.random(len(F)) < rng.choice([0.0, 0.2, 0.5, 1.0])
        F[m] = F[m][:, ::-1]
    if perm_faces:
        F = F[rng.permutation(len(F))]
    F = np.array([np.roll(f, int(rng.integers(0, 3))) for f in F])
    return V, F
