"""Independent geometric predicates in the local frame of a source spec.

side(spec, p, rel=1e-9) -> +1 strictly inside (by rel*size), -1 strictly outside, 0 in the band
dist_to_surface(spec, p) -> unsigned distance to the body's surface (exact formulas)
special_points(spec) -> named exact points on faces / edges / corners / axis etc.
"""
from __future__ import annotations

import numpy as np


def to_local(spec, P, m=0):
    from scipy.spatial.transform import Rotation as R

    i = min(m, len(spec["position"]) - 1)
    return R.from_quat(spec["orientation"][i]).inv().apply(np.atleast_2d(P) - np.array(spec["position"][i]))


def to_global(spec, P, m=0):
    from scipy.spatial.transform import Rotation as R

    i = min(m, len(spec["position"]) - 1)
    return R.from_quat(spec["orientation"][i]).apply(np.atleast_2d(P)) + np.array(spec["position"][i])


# ------------------------------------------------------------------ triangles
def tri_dist(p, tri):
    """distance from points p (n,3) to triangle tri (3,3) (Ericson, closest point)"""
    p = np.atleast_2d(p)
    a, b, c = tri
    ab, ac = b - a, c - a
    out = np.empty(len(p))
    for i, x in enumerate(p):
        ap = x - a
        d1, d2 = ab @ ap, ac @ ap
        if d1 <= 0 and d2 <= 0:
            q = a
        else:
            bp = x - b
            d3, d4 = ab @ bp, ac @ bp
            if d3 >= 0 and d4 <= d3:
                q = b
            else:
                vc = d1 * d4 - d3 * d2
                if vc <= 0 and d1 >= 0 and d3 <= 0:
                    q = a + ab * (d1 / (d1 - d3))
                else:
                    cp = x - c
                    d5, d6 = ab @ cp, ac @ cp
                    if d6 >= 0 and d5 <= d6:
                        q = c
                    else:
                        vb = d5 * d2 - d1 * d6
                        if vb <= 0 and d2 >= 0 and d6 <= 0:
                            q = a + ac * (d2 / (d2 - d6))
                        else:
                            va = d3 * d6 - d5 * d4
                            if va <= 0 and (d4 - d3) >= 0 and (d5 - d6) >= 0:
                                q = b + (c - b) * ((d4 - d3) / ((d4 - d3) + (d5 - d6)))
                            else:
                                den = 1.0 / (va + vb + vc)
                                q = a + ab * (vb * den) + ac * (vc * den)
        out[i] = np.linalg.norm(x - q)
    return out


def solid_angle_winding(p, tris):
    """winding number of closed triangle set `tris` (F,3,3) about points p (n,3):
    Van Oosterom-Strackee.  1 inside / 0 outside for an outward oriented closed mesh."""
    p = np.atleast_2d(p)
    A = tris[None, :, 0, :] - p[:, None, :]
    B = tris[None, :, 1, :] - p[:, None, :]
    C = tris[None, :, 2, :] - p[:, None, :]
    a = np.linalg.norm(A, axis=2)
    b = np.linalg.norm(B, axis=2)
    c = np.linalg.norm(C, axis=2)
    num = np.einsum("nfi,nfi->nf", A, np.cross(B, C))
    den = a * b * c + np.einsum("nfi,nfi->nf", A, B) * c + np.einsum("nfi,nfi->nf", B, C) * a + \
        np.einsum("nfi,nfi->nf", C, A) * b
    om = 2 * np.arctan2(num, den)
    return om.sum(axis=1) / (4 * np.pi)


def mesh_tris(spec):
    v = np.array(spec["vertices"], float)
    if spec["cls"] == "Tetrahedron":
        f = np.array([[0, 1, 2], [0, 1, 3], [0, 2, 3], [1, 2, 3]])
        T = v[f]
        c = v.mean(axis=0)
        for i in range(4):  # orient outwards (away from the centroid)
            a, b, cc = T[i]
            if np.dot(np.cross(b - a, cc - a), a - c) < 0:
                T[i] = T[i][::-1]
        return T
    return v[np.array(spec["faces"], int)]


# ------------------------------------------------------------------ signed "depth": >0 inside
def depth(spec, P):
    """signed distance-like quantity: positive inside, negative outside, |.| = distance to the
    surface for points near it (exact for polyhedra / cylinder / sphere / cuboid inside;
    outside it is a lower bound for cuboid-like bodies, good enough for band decisions)"""
    P = np.atleast_2d(np.asarray(P, float))
    c = spec["cls"]
    if c == "Cuboid":
        h = np.array(spec["dimension"], float) / 2
        q = np.abs(P) - h
        outside = np.linalg.norm(np.maximum(q, 0), axis=1)
        inside = -np.max(q, axis=1)
        return np.where(np.all(q <= 0, axis=1), inside, -outside)
    if c == "Cylinder":
        d, hh = spec["dimension"]
        r = np.hypot(P[:, 0], P[:, 1])
        q = np.c_[r - d / 2, np.abs(P[:, 2]) - hh / 2]
        outside = np.linalg.norm(np.maximum(q, 0), axis=1)
        inside = -np.max(q, axis=1)
        return np.where(np.all(q <= 0, axis=1), inside, -outside)
    if c == "Sphere":
        return spec["diameter"] / 2 - np.linalg.norm(P, axis=1)
    if c == "CylinderSegment":
        r1, r2, hh, p1, p2 = spec["dimension"]
        r = np.hypot(P[:, 0], P[:, 1])
        ph = np.rad2deg(np.arctan2(P[:, 1], P[:, 0]))
        if p2 - p1 >= 360:
            dphi_in = np.full(len(P), np.inf)
            ang_inside = np.ones(len(P), bool)
        else:
            # angular position relative to the segment, folded to [0,360)
            rel = np.mod(ph - p1, 360.0)
            ang_inside = rel <= (p2 - p1)
            # distance (length) to the nearer side plane for points inside the wedge
            d1 = np.deg2rad(rel)
            d2 = np.deg2rad((p2 - p1) - rel)
            with np.errstate(invalid="ignore"):
                dphi_in = r * np.sin(np.minimum(np.minimum(d1, d2), np.pi / 2))
        q_r = np.maximum(r1 - r, r - r2)
        q_z = np.abs(P[:, 2]) - hh / 2
        inside_all = (q_r <= 0) & (q_z <= 0) & ang_inside
        din = np.minimum(np.minimum(-q_r, -q_z), dphi_in)
        # outside: conservative lower bound on distance
        dout = np.maximum(np.maximum(q_r, q_z), 0.0)
        if p2 - p1 < 360:
            rel = np.mod(ph - p1, 360.0)
            ang_out = np.minimum(np.deg2rad(rel - (p2 - p1)), np.deg2rad(360 - rel))
            with np.errstate(invalid="ignore"):
                d_ang = np.where(ang_inside, 0.0, r * np.sin(np.minimum(ang_out, np.pi / 2)))
            dout = np.maximum(dout, d_ang)
        return np.where(inside_all, din, -dout)
    if c in ("Tetrahedron", "TriangularMesh"):
        T = mesh_tris(spec)
        w = solid_angle_winding(P, T)
        d = np.min(np.array([tri_dist(P, t) for t in T]), axis=0)
        return np.where(np.abs(w) > 0.5, d, -d)
    return np.full(len(P), -np.inf)  # no interior


def side(spec, P, rel=1e-9):
    from vfw import objs

    d = depth(spec, P)
    t = rel * objs.size_of(spec)
    return np.where(d > t, 1, np.where(d < -t, -1, 0))


def dist_to_surface(spec, P):
    """unsigned distance to the surface of a body (exact for the classes used by C19)"""
    P = np.atleast_2d(np.asarray(P, float))
    c = spec["cls"]
    if c == "Cuboid":
        h = np.array(spec["dimension"], float) / 2
        q = np.abs(P) - h
        outside = np.linalg.norm(np.maximum(q, 0), axis=1)
        inside = -np.max(q, axis=1)
        return np.where(np.all(q <= 0, axis=1), inside, outside)
    if c == "Cylinder":
        d, hh = spec["dimension"]
        r = np.hypot(P[:, 0], P[:, 1])
        q = np.c_[r - d / 2, np.abs(P[:, 2]) - hh / 2]
        outside = np.linalg.norm(np.maximum(q, 0), axis=1)
        inside = -np.max(q, axis=1)
        return np.where(np.all(q <= 0, axis=1), inside, outside)
    if c == "Sphere":
        return np.abs(spec["diameter"] / 2 - np.linalg.norm(P, axis=1))
    if c in ("Tetrahedron", "TriangularMesh", "Triangle"):
        T = np.array([spec["vertices"]], float) if c == "Triangle" else mesh_tris(spec)
        return np.min(np.array([tri_dist(P, t) for t in T]), axis=0)
    if c == "CylinderSegment":
        return np.abs(depth(spec, P))  # exact inside / near faces; lower bound far outside
    raise ValueError(c)


# ------------------------------------------------------------------ special sets
def special_points(spec):
    """dict name -> exact local point on a special set of the geometry"""
    c = spec["cls"]
    out = {}
    if c == "Cuboid":
        a, b, cc = np.array(spec["dimension"], float) / 2
        out = {"center": [0, 0, 0], "face_x": [a, 0.3 * b, -0.2 * cc], "face_y": [0.1 * a, -b, 0.4 * cc],
               "face_z": [0.2 * a, 0.1 * b, cc], "face_center": [a, 0, 0], "edge_x": [0.3 * a, b, cc],
               "edge_y": [a, 0.0, -cc], "edge_z": [-a, b, 0.5 * cc], "corner": [a, b, cc], "corner2": [-a, b, -cc],
               "edge_ext": [2 * a, b, cc], "face_ext": [a, 2 * b, 0.1 * cc]}
    elif c == "Cylinder":
        d, h = spec["dimension"]
        r = d / 2
        out = {"center": [0, 0, 0], "axis": [0, 0, 0.3 * h], "axis_top": [0, 0, h / 2], "top": [0.3 * r, 0.1 * r, h / 2],
               "bottom": [0.2 * r, 0, -h / 2], "hull": [r, 0, 0.2 * h], "hull_y": [0, -r, 0], "rim": [r, 0, h / 2],
               "rim2": [0, r, -h / 2], "axis_out": [0, 0, h], "hull_ext": [r, 0, h], "top_ext": [2 * r, 0, h / 2],
               "small_r": [0.05 * r, 0, 0.1 * h]}
    elif c == "Sphere":
        r = spec["diameter"] / 2
        out = {"center": [0, 0, 0], "surf_x": [r, 0, 0], "surf_z": [0, 0, -r], "surf_y": [0, r, 0]}
    elif c == "CylinderSegment":
        r1, r2, h, p1, p2 = spec["dimension"]
        pm = np.deg2rad((p1 + p2) / 2)
        rm = (r1 + r2) / 2
        cm, sm = np.cos(pm), np.sin(pm)
        c1, s1 = np.cos(np.deg2rad(p1)), np.sin(np.deg2rad(p1))
        out = {"inside_mid": [rm * cm, rm * sm, 0.0], "top": [rm * cm, rm * sm, h / 2], "bottom": [rm * cm, rm * sm, -h / 2],
               "outer": [r2 * cm, r2 * sm, 0.1 * h], "side1": [rm * c1, rm * s1, 0.1 * h],
               "edge_top_outer": [r2 * cm, r2 * sm, h / 2], "edge_side_top": [rm * c1, rm * s1, h / 2],
               "axis": [0.0, 0.0, 0.1 * h], "axis_top": [0.0, 0.0, h / 2], "side1_ext": [2 * r2 * c1, 2 * r2 * s1, 0.0],
               "top_ext": [2 * r2 * cm, 2 * r2 * sm, h / 2], "outer_ext": [r2 * cm, r2 * sm, h]}
        if r1 > 0:
            out["inner"] = [r1 * cm, r1 * sm, 0.0]
    elif c in ("Tetrahedron", "TriangularMesh", "Triangle"):
        v = np.array(spec["vertices"], float)
        T = np.array([v]) if c == "Triangle" else mesh_tris(spec)
        t = T[0]
        out = {"vertex": t[0], "edge_mid": (t[0] + t[1]) / 2, "face_centroid": t.mean(axis=0),
               "face_point": 0.5 * t[0] + 0.25 * t[1] + 0.25 * t[2], "edge_ext": t[0] + 2.0 * (t[1] - t[0])}
        if c != "Triangle":
            out["centroid"] = v.mean(axis=0)
        else:
            n = np.cross(t[1] - t[0], t[2] - t[0])
            out["above_centroid"] = t.mean(axis=0) + n / np.linalg.norm(n) * 0.1
            out["in_plane_out"] = t[0] + 1.5 * (t[1] - t[0]) + 1.5 * (t[2] - t[0])
    elif c == "Circle":
        r = spec["diameter"] / 2
        out = {"center": [0, 0, 0], "axis": [0, 0, 0.7 * r], "wire": [r, 0, 0], "wire_y": [0, -r, 0],
               "plane_in": [0.5 * r, 0, 0], "plane_out": [2 * r, 0, 0], "above_wire": [r, 0, 0.5 * r]}
    elif c == "Polyline":
        v = np.array(spec["vertices"], float)
        out = {"vertex0": v[0], "vertex_last": v[-1], "seg_mid": (v[0] + v[1]) / 2, "seg_ext": v[0] + 2.0 * (v[1] - v[0]),
               "seg_ext_neg": v[0] - 1.0 * (v[1] - v[0])}
    elif c == "Dipole":
        out = {"location": [0, 0, 0], "axis": [0, 0, 1.0], "equator": [1.0, 0, 0]}
    return {k: np.array(v, float) for k, v in out.items()}


def ulp_neighbours(p, ks=(1, 2, 4)):
    """points a few ulp away from p in each coordinate (both directions)"""
    p = np.asarray(p, float)
    out = []
    for k in ks:
        for sgn in (+1, -1):
            q = p.copy()
            for _ in range(k):
                q = np.nextafter(q, sgn * np.inf)
            out.append(q)
    return out


def cylseg_coincidence_dist(spec, P_local):
    """relative distance (in units of the segment's size) of local points from the nearest coincidence set of a
    CylinderSegment: the cylinders r = r1, r2, the planes z = +-h/2, the two side planes through the axis
    (phi = phi1, phi2 and their continuation beyond the axis); the axis itself is the near-axis finding's business
    and is NOT included.  Next to these sets (on the magnet or on their extension far from it) the library's
    closed form loses digits like 1/d^2."""
    P = np.atleast_2d(np.asarray(P_local, float))
    r1, r2, h, p1, p2 = spec["dimension"]
    size = max(2 * r2, h)
    r = np.hypot(P[:, 0], P[:, 1])
    ph = np.arctan2(P[:, 1], P[:, 0])
    d = [np.abs(r - r2), np.abs(P[:, 2] - h / 2), np.abs(P[:, 2] + h / 2)]
    if r1 > 0:
        d.append(np.abs(r - r1))
    for a in (p1, p2):
        d.append(np.abs(r * np.sin(ph - np.deg2rad(a))))
    return np.min(np.array(d), axis=0) / size
