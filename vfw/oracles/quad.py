"""First-principles magnetostatic oracle (shares no code and no decomposition with magpylib).

currents : H = I/4pi  closed/open line integral of dl' x (r-r')/|r-r'|^3      (quad_vec)
magnets  : H = 1/(4pi mu0) surface integral of (J.n')(r-r')/|r-r'|^3 dS'       (cubature per face)
           B = mu0 H + chi J, chi = 1/4pi  surface integral of (r'-r).n'/|r'-r|^3 dS'
           (winding number: 1 inside, 0 outside) from the SAME cubature call, plus
           S_abs = surface integral of |sigma|/|r-r'|^2 (conditioning scale)
dipole   : the point-dipole formula is the definition.
All in the local frame of the source; the pose is applied with scipy Rotation by this module.
"""
from __future__ import annotations

import numpy as np
from scipy.integrate import cubature, quad_vec
from scipy.spatial.transform import Rotation as R

MU0 = 1.25663706127e-6  # CODATA 2022 (scipy.constants.mu_0 of the installed scipy); asserted at run time


class NotConverged(Exception):
    pass


# ----------------------------------------------------------------------------- surface patches
def _patch_integrand(uv, X, N_dA, sigma_fun, obs):
    """uv (n,2) -> (n,5): H-contribution*4pi*mu0 (3), winding*4pi (1), |sigma| dA / d^2 (1)
    X(uv)->(n,3) points, N_dA(uv)->(n,3) outward normal times area element, sigma via J.n"""
    x = X(uv)
    nda = N_dA(uv)
    d = obs[None, :] - x
    r2 = np.einsum("ij,ij->i", d, d)
    r3 = r2 * np.sqrt(r2)
    sig_da = sigma_fun(nda)  # J . n dA
    out = np.empty((len(uv), 5))
    with np.errstate(divide="ignore", invalid="ignore"):
        out[:, :3] = (sig_da / r3)[:, None] * d
        out[:, 3] = -np.einsum("ij,ij->i", d, nda) / r3
        # conditioning scale: smooth variant (sigma^2, not |sigma|: a kink along sigma = 0 would stall the
        # adaptive rule - measured: 800 instead of 2 subdivisions on a cylinder mantle)
        out[:, 4] = sig_da * sig_da / r2
    return np.nan_to_num(out, nan=0.0, posinf=0.0, neginf=0.0)


def _patches(spec):
    """list of (X, N_dA, lo, hi) in the local frame"""
    c = spec["cls"]
    P = []
    if c == "Cuboid":
        a, b, cc = np.array(spec["dimension"], float) / 2
        h = [a, b, cc]
        for ax in range(3):
            o1, o2 = [i for i in range(3) if i != ax]
            for sgn in (-1.0, 1.0):
                def X(uv, ax=ax, o1=o1, o2=o2, sgn=sgn):
                    x = np.empty((len(uv), 3))
                    x[:, ax] = sgn * h[ax]
                    x[:, o1] = uv[:, 0]
                    x[:, o2] = uv[:, 1]
                    return x

                def N(uv, ax=ax, sgn=sgn):
                    n = np.zeros((len(uv), 3))
                    n[:, ax] = sgn
                    return n
                P.append((X, N, [-h[o1], -h[o2]], [h[o1], h[o2]]))
    elif c in ("Cylinder", "CylinderSegment"):
        if c == "Cylinder":
            r1, r2, hh, p1, p2 = 0.0, spec["dimension"][0] / 2, spec["dimension"][1], 0.0, 360.0
        else:
            r1, r2, hh, p1, p2 = spec["dimension"]
        f1, f2 = np.deg2rad(p1), np.deg2rad(p2)
        full = (p2 - p1) >= 360
        for sgn in (-1.0, 1.0):  # bases, parametrised (rho, phi)
            def X(uv, sgn=sgn):
                return np.c_[uv[:, 0] * np.cos(uv[:, 1]), uv[:, 0] * np.sin(uv[:, 1]), np.full(len(uv), sgn * hh / 2)]

            def N(uv, sgn=sgn):
                n = np.zeros((len(uv), 3))
                n[:, 2] = sgn * uv[:, 0]
                return n
            P.append((X, N, [r1, f1], [r2, f2]))
        for rr, sgn in ((r2, 1.0), (r1, -1.0)):  # mantles (phi, z)
            if rr == 0:
                continue

            def X(uv, rr=rr):
                return np.c_[rr * np.cos(uv[:, 0]), rr * np.sin(uv[:, 0]), uv[:, 1]]

            def N(uv, rr=rr, sgn=sgn):
                return np.c_[sgn * rr * np.cos(uv[:, 0]), sgn * rr * np.sin(uv[:, 0]), np.zeros(len(uv))]
            P.append((X, N, [f1, -hh / 2], [f2, hh / 2]))
        if not full:
            for ff, sgn in ((f1, -1.0), (f2, 1.0)):  # side planes (rho, z), normal = +-e_phi
                def X(uv, ff=ff):
                    return np.c_[uv[:, 0] * np.cos(ff), uv[:, 0] * np.sin(ff), uv[:, 1]]

                def N(uv, ff=ff, sgn=sgn):
                    return np.tile([-sgn * np.sin(ff), sgn * np.cos(ff), 0.0], (len(uv), 1))
                P.append((X, N, [r1, -hh / 2], [r2, hh / 2]))
    elif c == "Sphere":
        rr = spec["diameter"] / 2

        def X(uv):
            return rr * np.c_[np.sin(uv[:, 0]) * np.cos(uv[:, 1]), np.sin(uv[:, 0]) * np.sin(uv[:, 1]), np.cos(uv[:, 0])]

        def N(uv):
            return (rr**2 * np.sin(uv[:, 0]))[:, None] * np.c_[np.sin(uv[:, 0]) * np.cos(uv[:, 1]),
                                                               np.sin(uv[:, 0]) * np.sin(uv[:, 1]), np.cos(uv[:, 0])]
        P.append((X, N, [0.0, 0.0], [np.pi, 2 * np.pi]))
    elif c in ("Triangle", "Tetrahedron", "TriangularMesh"):
        from vfw.oracles.geometry import mesh_tris

        T = [np.array(spec["vertices"], float)] if c == "Triangle" else list(mesh_tris(spec))
        if c == "TriangularMesh":  # outward orientation by signed volume, independent of the library's reorientation
            V = np.array(spec["vertices"], float)
            F = np.array(spec["faces"], int)
            T = [V[f] for f in F]
        for t in T:
            a, b, cc = t
            nvec = np.cross(b - a, cc - a)  # |nvec| = 2*area ; Duffy map: x = a + u((1-v)(b-a) + v(c-a)), dA = u |nvec| du dv

            def X(uv, a=a, b=b, cc=cc):
                u, v = uv[:, 0:1], uv[:, 1:2]
                return a + u * ((1 - v) * (b - a) + v * (cc - a))

            def N(uv, nvec=nvec):
                return uv[:, 0:1] * nvec[None, :]
            P.append((X, N, [0.0, 0.0], [1.0, 1.0]))
    else:
        raise ValueError(c)
    return P


def magnet_local(spec, obs, rtol=1e-8, max_sub=6000):
    """(mu0*H (3), chi, S_abs, err_est(5), n_subdivisions) at one local observer"""
    J = np.array(spec["polarization"], float)
    tot = np.zeros(5)
    err = np.zeros(5)
    nsub = 0
    for X, N, lo, hi in _patches(spec):
        f = lambda uv, X=X, N=N: _patch_integrand(uv, X, N, lambda nda: nda @ J, obs)
        # atol: components that vanish by symmetry (and the winding number outside) cannot meet a relative
        # target; 1e-10*|J| on the un-normalised integrals is 1e-11 of the field scale
        res = cubature(f, lo, hi, rtol=rtol, atol=1e-10 * np.linalg.norm(J) + 1e-300, max_subdivisions=max_sub)
        tot += res.estimate
        err += res.error
        nsub += res.subdivisions
        if res.status != "converged":
            raise NotConverged(f"{spec['cls']}: cubature {res.status} after {res.subdivisions} subdivisions")
    tot /= 4 * np.pi
    err /= 4 * np.pi
    return tot[:3], tot[3], tot[4], err, nsub


# ----------------------------------------------------------------------------- currents
def current_local(spec, obs):
    """H (A/m) at one local observer"""
    c = spec["cls"]
    I = spec["current"]
    if c == "Circle":
        r0 = spec["diameter"] / 2

        def f(t):
            rp = np.array([r0 * np.cos(t), r0 * np.sin(t), 0.0])
            dl = np.array([-r0 * np.sin(t), r0 * np.cos(t), 0.0])
            d = obs - rp
            return np.cross(dl, d) / np.linalg.norm(d) ** 3
        t0 = np.arctan2(obs[1], obs[0]) % (2 * np.pi)
        v, e = quad_vec(f, 0, 2 * np.pi, epsabs=0, epsrel=1e-12, points=[t0], limit=2000)
        return I * v / (4 * np.pi), I * e / (4 * np.pi)
    if c == "Polyline":
        V = np.array(spec["vertices"], float)
        tot, err = np.zeros(3), 0.0
        for a, b in zip(V[:-1], V[1:]):
            if np.all(a == b):
                continue
            e_ = b - a

            def f(t, a=a, e_=e_):
                d = obs - (a + t * e_)
                return np.cross(e_, d) / np.linalg.norm(d) ** 3
            t0 = float(np.clip(np.dot(obs - a, e_) / np.dot(e_, e_), 0, 1))
            v, e = quad_vec(f, 0, 1, epsabs=0, epsrel=1e-12, points=[t0], limit=2000)
            tot += v
            err += e
        return I * tot / (4 * np.pi), abs(I) * err / (4 * np.pi)
    raise ValueError(c)


def dipole_local(spec, obs):
    m = np.array(spec["moment"], float)
    r = np.linalg.norm(obs)
    return (3 * np.dot(m, obs) * obs / r**5 - m / r**3) / (4 * np.pi)


# ----------------------------------------------------------------------------- public
def field(spec, obs_global, m=0, rtol=1e-8):
    """first-principles (B, H, info) of a source spec at ONE global observer, path index m"""
    i = min(m, len(spec["position"]) - 1)
    Rs = R.from_quat(spec["orientation"][i])
    p = np.array(spec["position"][i], float)
    obs = Rs.inv().apply(np.asarray(obs_global, float) - p)
    c = spec["cls"]
    info = {}
    if c in ("Circle", "Polyline"):
        H, e = current_local(spec, obs)
        B = MU0 * H
        info = {"err": float(np.max(e)) * MU0}
    elif c == "Dipole":
        H = dipole_local(spec, obs)
        B = MU0 * H
    else:
        mu0H, chi, sabs, err, nsub = magnet_local(spec, obs, rtol=rtol)
        J = np.array(spec["polarization"], float)
        info = {"chi": float(chi), "S_abs": float(sabs), "err": float(np.max(err[:3])), "subdivisions": int(nsub)}
        if c == "Triangle":
            chi_r = 0.0  # open sheet: surface-charge field only
        else:
            chi_r = round(chi)
            if abs(chi - chi_r) > 1e-5 or chi_r not in (0, 1):
                raise NotConverged(f"winding number {chi} not 0/1 (observer on the surface or mesh not closed/oriented)")
        H = mu0H / MU0
        B = mu0H + chi_r * J
    return Rs.apply(B), Rs.apply(H), info


def selftest():
    """known closed forms; returns dict name -> relative error"""
    out = {}
    # sphere interior B = 2J/3 ; exterior = dipole
    s = {"cls": "Sphere", "diameter": 2.0, "polarization": [0.1, -0.2, 0.7], "position": [[0, 0, 0]], "orientation": [[0, 0, 0, 1]]}
    B, H, info = field(s, [0.2, 0.1, -0.3])
    out["sphere_inside_2J/3"] = float(np.linalg.norm(B - 2 * np.array(s["polarization"]) / 3) / np.linalg.norm(B))
    vol = 4 / 3 * np.pi
    Bo, Ho, _ = field(s, [2.0, 1.0, 3.0])
    md = np.array(s["polarization"]) * vol / MU0
    o = np.array([2.0, 1.0, 3.0])
    Hd = (3 * np.dot(md, o) * o / np.linalg.norm(o) ** 5 - md / np.linalg.norm(o) ** 3) / (4 * np.pi)
    out["sphere_outside_dipole"] = float(np.linalg.norm(Ho - Hd) / np.linalg.norm(Hd))
    # winding number of a cube from its centre and outside
    cb = {"cls": "Cuboid", "dimension": [1.0, 2.0, 3.0], "polarization": [0, 0, 1.0], "position": [[0, 0, 0]], "orientation": [[0, 0, 0, 1]]}
    _, _, i1 = field(cb, [0.1, 0.2, 0.3])
    _, _, i2 = field(cb, [2.0, 0.2, 0.3])
    out["cube_winding_inside"] = abs(i1["chi"] - 1)
    out["cube_winding_outside"] = abs(i2["chi"])
    # long straight wire: H = I/(2 pi d)
    w = {"cls": "Polyline", "vertices": [[0, 0, -1e4], [0, 0, 1e4]], "current": 2.0, "position": [[0, 0, 0]], "orientation": [[0, 0, 0, 1]]}
    _, Hw, _ = field(w, [0.5, 0, 0])
    out["infinite_wire"] = float(abs(Hw[1] - 2.0 / (2 * np.pi * 0.5)) / Hw[1])
    # circle centre: H = I/(2 r)
    cc = {"cls": "Circle", "diameter": 2.0, "current": 3.0, "position": [[0, 0, 0]], "orientation": [[0, 0, 0, 1]]}
    _, Hc, _ = field(cc, [0, 0, 0])
    out["circle_centre"] = float(abs(Hc[2] - 1.5) / 1.5)
    return out
