"""Sequential reference model of the documented path semantics (docs_pos_ori.md, move/rotate
docstrings).  Written from the documentation, independent of class_BaseTransform:

* scalar input  -> applied to every path entry from index `start` (default 0)
* vector input n -> applied entry-wise to n entries from `start` (default: len(path) = append)
* negative start counts from the end; wherever the input reaches beyond the path, the path is
  edge-padded first (before and/or behind)
* rotation composes on the left (new = rot * old) and moves the position about the anchor
* setters: the other path is edge-padded (if shorter) or end-sliced (if longer)
"""
from __future__ import annotations

import numpy as np
from scipy.spatial.transform import Rotation as R


class PathModel:
    def __init__(self, pos, quat):
        self.pos = np.array(pos, float).reshape(-1, 3)
        self.quat = np.array(quat, float).reshape(-1, 4)
        assert len(self.pos) == len(self.quat) >= 1

    def copy(self):
        return PathModel(self.pos.copy(), self.quat.copy())

    # ------------------------------------------------------------------
    def _window(self, scalar, n, start):
        """pad the path as documented; return (i0, i1) of the entries the input applies to,
        and (pad_before, pad_behind)"""
        L = len(self.pos)
        if start == "auto":
            start = 0 if scalar else L
        if start < 0:
            start = L + start
        before = 0
        if start < 0:
            before = -start
            start = 0
        L2 = L + before
        behind = max(0, start + n - L2)
        if before or behind:
            self.pos = np.pad(self.pos, ((before, behind), (0, 0)), "edge")
            self.quat = np.pad(self.quat, ((before, behind), (0, 0)), "edge")
        i1 = len(self.pos) if scalar else start + n
        return start, i1, before, behind

    def move(self, disp, start="auto"):
        disp = np.array(disp, float)
        scalar = disp.ndim == 1
        n = 1 if scalar else len(disp)
        if n == 0:
            return 0, 0
        i0, i1, b, e = self._window(scalar, n, start)
        self.pos[i0:i1] += disp
        return b, e

    def rotate(self, rot, scalar, anchor=None, start="auto"):
        """rot: scipy Rotation (single or len n); scalar: whether the input was scalar;
        anchor: None | (3,) | (n,3)"""
        n = 1 if scalar else len(rot)
        if n == 0:
            return 0, 0
        i0, i1, b, e = self._window(scalar, n, start)
        old = R.from_quat(self.quat[i0:i1])
        if anchor is not None:
            a = np.array(anchor, float)
            self.pos[i0:i1] = rot.apply(self.pos[i0:i1] - a) + a
        self.quat[i0:i1] = (rot * old).as_quat()
        return b, e

    def set_position(self, P):
        P = np.array(P, float).reshape(-1, 3)
        self.quat = _pad_slice(len(P), self.quat)
        self.pos = P

    def set_orientation(self, Q):
        Q = np.array([[0, 0, 0, 1.0]]) if Q is None else np.array(Q, float).reshape(-1, 4)
        self.pos = _pad_slice(len(Q), self.pos)
        self.quat = Q

    def reset(self):
        self.pos = np.zeros((1, 3))
        self.quat = np.array([[0, 0, 0, 1.0]])


def _pad_slice(n, arr):
    d = n - len(arr)
    if d > 0:
        return np.pad(arr, ((0, d), (0, 0)), "edge")
    if d < 0:
        return arr[-n:]
    return arr
