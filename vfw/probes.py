"""Source-free probes built on sys.monitoring (Python 3.12).

* LocalsProbe  - read frame locals of a library function when a given source line
                 (located by text pattern, so line shifts do not matter) is about to run
* LoopBudget   - count backward jumps inside given functions, raise when a budget is exceeded
* Failpoints   - raise an injected fault on the k-th hit of a chosen call-bearing line

One tool id is shared; callbacks dispatch on (code object, line).
"""
from __future__ import annotations

import ast
import inspect
import sys
import textwrap

mon = sys.monitoring
TOOL = mon.DEBUGGER_ID


class InjectedFault(Exception):
    """raised by a failpoint"""


class NonTermination(Exception):
    """raised by the loop monitor when the back-edge budget of a call is exceeded"""


class Probes:
    def __init__(self):
        self.line_cbs = {}  # (code, line) -> [callable(frame)]
        self.codes = set()
        self.loop_codes = {}  # code -> budget
        self.loop_counts = {}  # id(frame) -> count
        self.max_backedges = {}  # code name -> max seen
        self.unattached = []
        self.active = False

    # ------------------------------------------------------------------ plumbing
    def start(self):
        if self.active:
            return
        try:
            mon.use_tool_id(TOOL, "vfw")
        except ValueError:
            mon.free_tool_id(TOOL)
            mon.use_tool_id(TOOL, "vfw")
        mon.register_callback(TOOL, mon.events.LINE, self._on_line)
        mon.register_callback(TOOL, mon.events.JUMP, self._on_jump)
        mon.register_callback(TOOL, mon.events.BRANCH, self._on_jump)
        mon.register_callback(TOOL, mon.events.PY_START, self._on_start)
        self.active = True
        for code in set(self.codes) | set(self.loop_codes):
            self._apply(code)

    def _apply(self, code):
        ev = 0
        if code in self.codes:
            ev |= mon.events.LINE
        if code in self.loop_codes:
            ev |= mon.events.JUMP | mon.events.BRANCH | mon.events.PY_START
        if self.active:
            mon.set_local_events(TOOL, code, ev)

    def stop(self):
        if not self.active:
            return
        for code in set(self.codes) | set(self.loop_codes):
            mon.set_local_events(TOOL, code, 0)
        for ev in (mon.events.LINE, mon.events.JUMP, mon.events.BRANCH, mon.events.PY_START):
            mon.register_callback(TOOL, ev, None)
        mon.free_tool_id(TOOL)
        self.active = False

    def __enter__(self):
        self.start()
        return self

    def __exit__(self, *a):
        self.stop()

    # ------------------------------------------------------------------ line probes
    @staticmethod
    def find_lines(func, pattern, after=False):
        """absolute line numbers of statements of `func` whose source contains `pattern`;
        after=True -> the next statement line (to read a name the matched line binds)"""
        func = inspect.unwrap(func)
        lines, start = inspect.getsourcelines(func)
        tree = ast.parse(textwrap.dedent("".join(lines)))
        stmts = sorted({(n.lineno, n.end_lineno) for n in ast.walk(tree) if isinstance(n, ast.stmt)})
        out = []
        for lo, hi in stmts:
            text = "".join(lines[lo - 1:hi])
            first = lines[lo - 1]
            if pattern in first or (pattern in text and lo == hi):
                if after:
                    nxt = [s for s in stmts if s[0] > hi]
                    if nxt:
                        out.append(start + nxt[0][0] - 1)
                else:
                    out.append(start + lo - 1)
        return sorted(set(out))

    def on_line(self, func, pattern, cb, after=False, name=None):
        """cb(frame) runs when the matched line is about to execute"""
        try:
            code = inspect.unwrap(func).__code__
            lns = self.find_lines(func, pattern, after)
        except Exception:
            lns = []
        if not lns:
            self.unattached.append(name or f"{getattr(func, '__name__', func)}:{pattern}")
            return False
        for ln in lns:
            self.line_cbs.setdefault((code, ln), []).append(cb)
        self.codes.add(code)
        self._apply(code)
        return True

    def off_line(self, func):
        """remove all line callbacks of func"""
        code = inspect.unwrap(func).__code__
        for k in [k for k in self.line_cbs if k[0] is code]:
            del self.line_cbs[k]
        self.codes.discard(code)
        self._apply(code)

    def _on_line(self, code, line):
        cbs = self.line_cbs.get((code, line))
        if cbs:
            fr = sys._getframe(1)
            for cb in cbs:
                cb(fr)
        return None

    # ------------------------------------------------------------------ loop budget
    def loop_budget(self, func, budget):
        code = inspect.unwrap(func).__code__
        self.loop_codes[code] = budget
        self.max_backedges.setdefault(code.co_name, 0)
        self._apply(code)

    def _on_start(self, code, off):
        if code in self.loop_codes:
            self.loop_counts[id(sys._getframe(1))] = 0

    def _on_jump(self, code, src, dst):
        if dst < src and code in self.loop_codes:
            fid = id(sys._getframe(1))
            n = self.loop_counts.get(fid, 0) + 1
            self.loop_counts[fid] = n
            if n > self.max_backedges[code.co_name]:
                self.max_backedges[code.co_name] = n
            if n > self.loop_codes[code]:
                self.loop_counts[fid] = 0
                raise NonTermination(f"{code.co_name}: more than {self.loop_codes[code]} loop iterations")


def call_lines(func):
    """absolute line numbers (and text) of the statements of func that contain a Call
    (only those are eligible as failpoints: any call can really raise)"""
    func = inspect.unwrap(func)
    lines, start = inspect.getsourcelines(func)
    tree = ast.parse(textwrap.dedent("".join(lines)))
    fn = tree.body[0]
    out = {}
    # statements of a `finally:` body are the clean-up itself, not a point where the computation can fail
    cleanup = set()
    for node in ast.walk(fn):
        if isinstance(node, ast.Try):
            for st in node.finalbody:
                for sub in ast.walk(st):
                    if hasattr(sub, "lineno"):
                        cleanup.add(sub.lineno)
    for node in ast.walk(fn):
        if getattr(node, "lineno", None) in cleanup:
            continue
        if isinstance(node, ast.stmt) and not isinstance(node, (ast.FunctionDef, ast.If, ast.For, ast.While,
                                                                ast.With, ast.Try, ast.Import, ast.ImportFrom)):
            if any(isinstance(n, ast.Call) for n in ast.walk(node)):
                out[start + node.lineno - 1] = lines[node.lineno - 1].strip()
        elif isinstance(node, (ast.If, ast.While)):
            if any(isinstance(n, ast.Call) for n in ast.walk(node.test)):
                out[start + node.lineno - 1] = lines[node.lineno - 1].strip()
        elif isinstance(node, ast.For):
            if any(isinstance(n, ast.Call) for n in ast.walk(node.iter)):
                out[start + node.lineno - 1] = lines[node.lineno - 1].strip()
    return dict(sorted(out.items()))
