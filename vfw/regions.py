"""Observer generators stratified by region, in the local frame of a source spec."""
from __future__ import annotations

import numpy as np

from vfw import objs
from vfw.oracles import geometry as G


def _interior(spec):
    from vfw.props.c06 import interior_point

    return np.asarray(interior_point(spec), float)


def surface_hit(spec, direction, far=None):
    """point where the ray from an interior point along `direction` leaves the body (bisection on
    the independent inside predicate)"""
    size = objs.size_of(spec)
    a = _interior(spec)
    d = np.asarray(direction, float)
    d = d / np.linalg.norm(d)
    lo, hi = 0.0, (far or 4 * size)
    if G.depth(spec, (a + hi * d)[None])[0] > 0:
        return None
    for _ in range(80):
        mid = 0.5 * (lo + hi)
        if G.depth(spec, (a + mid * d)[None])[0] > 0:
            lo = mid
        else:
            hi = mid
    return a + 0.5 * (lo + hi) * d, d


def wire_points(spec, rng):
    """(point on the conductor / sheet / dipole, unit vector pointing away from it)"""
    c = spec["cls"]
    if c == "Circle":
        ph = rng.uniform(0, 2 * np.pi)
        r = spec["diameter"] / 2
        p = np.array([r * np.cos(ph), r * np.sin(ph), 0.0])
        er = np.array([np.cos(ph), np.sin(ph), 0.0])
        th = rng.uniform(0, 2 * np.pi)
        return p, np.cos(th) * er + np.sin(th) * np.array([0, 0, 1.0])
    if c == "Polyline":
        v = np.array(spec["vertices"], float)
        i = int(rng.integers(0, len(v) - 1))
        t = rng.uniform(-0.3, 1.3) if rng.random() < 0.3 else rng.uniform(0, 1)
        p = v[i] + t * (v[i + 1] - v[i])
        e = v[i + 1] - v[i]
        n = np.cross(e, rng.normal(size=3))
        if np.linalg.norm(n) == 0:
            n = rng.normal(size=3)
        return p, n / np.linalg.norm(n)
    if c == "Triangle":
        v = np.array(spec["vertices"], float)
        w = rng.dirichlet([1, 1, 1])
        if rng.random() < 0.3:  # in-plane, possibly outside (edge extensions)
            w = rng.normal(size=3)
            w = w / w.sum() if abs(w.sum()) > 0.2 else np.array([1.5, -0.25, -0.25])
        p = w @ v
        n = np.cross(v[1] - v[0], v[2] - v[0])
        n /= np.linalg.norm(n)
        if rng.random() < 0.3:
            n = n + 0.5 * rng.normal(size=3)
            n /= np.linalg.norm(n)
        return p, n * rng.choice([-1, 1])
    if c == "Dipole":
        d = rng.normal(size=3)
        return np.zeros(3), d / np.linalg.norm(d)
    raise ValueError(c)


def sample(rng, spec, lo=-3.0, hi=0.5):
    """one local observer at relative distance 10^U(lo,hi) (in sizes) from the surface / wire,
    on a random side; returns (point, d_rel, tag)"""
    size = objs.size_of(spec)
    drel = 10.0 ** rng.uniform(lo, hi)
    if spec["cls"] in objs.MAGNETS:
        for _ in range(20):
            hit = surface_hit(spec, rng.normal(size=3))
            if hit is not None:
                break
        else:
            return np.asarray(_interior(spec)) + size * 5, 5.0, "fallback"
        p, d = hit
        side = rng.choice([-1, 1]) if drel < 0.2 else 1
        q = p + side * d * drel * size
        dep = G.depth(spec, q[None])[0]
        # make sure we really are at ~drel from the surface (thin bodies: inside offset may cross)
        if abs(dep) < 0.3 * drel * size:
            q = p + d * drel * size
            side = 1
        return q, drel, ("inside" if side < 0 else "outside")
    p, n = wire_points(spec, rng)
    return p + n * drel * size, drel, "near-wire"
