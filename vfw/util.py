"""small shared helpers"""
from __future__ import annotations

import contextlib
import io
import traceback
import warnings

import numpy as np
from scipy.spatial.transform import Rotation as R

MU0 = None


def mu0():
    import magpylib

    return magpylib.mu_0


@contextlib.contextmanager
def quiet():
    """silence library warnings and prints (they are not what is being decided)"""
    with warnings.catch_warnings():
        warnings.simplefilter("ignore")
        with contextlib.redirect_stdout(io.StringIO()):
            yield


def relerr(a, b, floor=0.0):
    """max over elements of |a-b| / (max(|a|,|b|) row-norm + floor)"""
    a = np.asarray(a, float)
    b = np.asarray(b, float)
    if a.shape != b.shape:
        return np.inf
    if a.size == 0:
        return 0.0
    d = np.abs(a - b)
    if not np.all(np.isfinite(d)):
        # identical non-finite patterns are 'equal'
        same = (np.isnan(a) & np.isnan(b)) | (a == b)
        if np.all(same | np.isfinite(d)):
            d = np.where(same, 0.0, d)
        else:
            return np.inf
    if a.ndim >= 1 and a.shape[-1] == 3:
        na = np.linalg.norm(np.nan_to_num(a), axis=-1, keepdims=True)
        nb = np.linalg.norm(np.nan_to_num(b), axis=-1, keepdims=True)
        s = np.maximum(na, nb) + floor
    else:
        s = np.maximum(np.abs(a), np.abs(b)) + floor
    with np.errstate(invalid="ignore", divide="ignore"):
        r = np.where(d == 0, 0.0, d / s)
    return float(np.max(r))


def exc_info(e):
    tb = traceback.extract_tb(e.__traceback__)
    where = [f"{f.filename.split('/magpylib/')[-1] if '/magpylib/' in f.filename else f.filename}:{f.lineno}:{f.name}"
             for f in tb][-4:]
    return {"type": type(e).__name__, "msg": str(e)[:300], "where": where}


def rot_err(qa, qb):
    """max angle (rad) between two rotation paths"""
    ra, rb = R.from_quat(np.atleast_2d(qa)), R.from_quat(np.atleast_2d(qb))
    if len(ra) != len(rb):
        return np.inf
    return float(np.max((ra * rb.inv()).magnitude()))


def rng_choice(rng, seq):
    return seq[int(rng.integers(0, len(seq)))]
