"""Deep structural digests of live magpylib objects (state monitor).

The digest never touches the `obj.style` property (that would create the lazily
built style and make the monitor a mutator).  "style not yet instantiated" and
"instantiated with the same values" digest equal (see DESIGN 3.2).
"""
from __future__ import annotations

import numpy as np


def arr(a):
    if a is None:
        return None
    a = np.asarray(a)
    return (str(a.dtype), a.shape, a.tobytes())


def _style_value(obj):
    """canonical, value-only view of an object's style; does not create anything on obj"""
    st = getattr(obj, "_style", None)
    kw = getattr(obj, "_style_kwargs", None) or {}
    try:
        if st is None:
            cls = getattr(obj, "_style_class", None)
            if cls is None:
                return None
            st = cls()
            d = st.as_dict()
        else:
            d = st.as_dict()
        if kw:
            tmp = type(st)(**_deepcopy(d))
            tmp.update(_deepcopy(kw))
            d = tmp.as_dict()
        return _canon(d)
    except Exception as e:  # a style that cannot be rendered: record the fact, not the id
        return ("style-error", type(e).__name__, _canon(kw))


def _deepcopy(x):
    import copy

    return copy.deepcopy(x)


def _canon(x):
    if isinstance(x, dict):
        return tuple((k, _canon(v)) for k, v in sorted(x.items(), key=lambda kv: str(kv[0])))
    if isinstance(x, (list, tuple)):
        return tuple(_canon(v) for v in x)
    if isinstance(x, np.ndarray):
        return arr(x)
    if isinstance(x, (str, int, float, bool)) or x is None:
        return x
    if hasattr(x, "as_dict"):
        return _canon(x.as_dict())
    return repr(x)


GEOM = ("_dimension", "_diameter", "_vertices", "_faces", "_polarization", "_magnetization",
        "_current", "_moment", "_pixel")
MESH = ("_status_open", "_status_disconnected", "_status_selfintersecting", "_status_reoriented")


def digest(obj, style=True, label=True):
    """canonical nested tuple of everything observable about one object (not its children)"""
    d = [type(obj).__name__]
    d.append(("pos", arr(getattr(obj, "_position", None))))
    ori = getattr(obj, "_orientation", None)
    d.append(("ori", arr(ori.as_quat()) if ori is not None else None))
    for a in GEOM:
        if hasattr(obj, a):
            v = getattr(obj, a)
            d.append((a, arr(v) if isinstance(v, np.ndarray) else v))
    for a in MESH:
        if hasattr(obj, a):
            d.append((a, getattr(obj, a)))
            v = getattr(obj, a + "_data", None)   # e.g. the array of open edges stored by check_open()
            if isinstance(v, (list, tuple)):     # faces subsets of a disconnected mesh: parts of different sizes
                d.append((a + "_data", tuple(arr(np.asarray(x)) for x in v)))
            else:
                d.append((a + "_data", arr(np.asarray(v)) if v is not None else None))
    if hasattr(obj, "_handedness"):
        d.append(("hand", obj._handedness))
    if hasattr(obj, "_field_func"):
        ff = obj._field_func
        d.append(("ff", id(ff) if ff is not None else None))
    d.append(("parent", id(obj._parent) if getattr(obj, "_parent", None) is not None else None))
    if hasattr(obj, "_children"):
        d.append(("children", tuple(id(c) for c in obj._children)))
        d.append(("sources", tuple(id(c) for c in obj._sources)))
        d.append(("sensors", tuple(id(c) for c in obj._sensors)))
        d.append(("collections", tuple(id(c) for c in obj._collections)))
    if style:
        sv = _style_value(obj)
        if not label and sv is not None and isinstance(sv, tuple):
            sv = tuple(kv for kv in sv if not (isinstance(kv, tuple) and kv and kv[0] == "label"))
        d.append(("style", sv))
    return tuple(d)


def walk(obj, seen=None):
    """obj and all its descendants (pre-order), cycle safe"""
    seen = seen if seen is not None else set()
    if id(obj) in seen:
        return []
    seen.add(id(obj))
    out = [obj]
    for c in getattr(obj, "_children", []) or []:
        out += walk(c, seen)
    return out


def digest_tree(obj, **kw):
    return tuple(digest(o, **kw) for o in walk(obj))


def digest_many(objs, **kw):
    seen = set()
    out = []
    for o in objs:
        for x in walk(o, seen):
            out.append((id(x), digest(x, **kw)))
    return tuple(out)


def digest_defaults():
    import magpylib as magpy

    return _canon(magpy.defaults.as_dict())


def diff(a, b, path=""):
    """first difference between two digests, human readable"""
    if type(a) != type(b):
        return f"{path}: {_short(a)} != {_short(b)}"
    if isinstance(a, tuple):
        if len(a) != len(b):
            return f"{path}: len {len(a)} != {len(b)} :: {_short(a)} != {_short(b)}"
        for i, (x, y) in enumerate(zip(a, b)):
            name = x[0] if isinstance(x, tuple) and x and isinstance(x[0], str) else i
            d = diff(x, y, f"{path}/{name}")
            if d:
                return d
        return None
    if a != b:
        return f"{path}: {_short(a)} != {_short(b)}"
    return None


def _short(x):
    if isinstance(x, bytes):
        try:
            return str(np.frombuffer(x, float)[:8])
        except Exception:
            return x[:16].hex()
    s = repr(x)
    return s if len(s) < 160 else s[:160] + "..."
