"""vfw runner: sharding, watchdog, seeds, three-valued verdicts, evidence, replay.

Parent:  python -m vfw.runner C07 --tier quick
Worker:  python -m vfw.runner C07 --tier quick --worker --shard 3 --nshards 16 --out f.json
Replay:  python -m vfw.runner C07 --replay replays/C07/<sha>.json

Exit codes: 0 held on everything observed (known findings are printed, not failed)
            1 at least one unlisted violation  (line `VIOLATION property=<id> replay=<path>`)
            2 inconclusive (machinery failure: watchdog, monitor never reached, worker died)
"""
from __future__ import annotations

import argparse
import hashlib
import importlib
import json
import os
import subprocess
import sys
import time
import traceback

VERIF = os.path.dirname(os.path.dirname(os.path.abspath(__file__)))
REPO = os.environ.get("VERIF_REPO", "/repo")
PY = "/venv/bin/python"


# --------------------------------------------------------------------------- utils
def jsonable(o):
    """make numpy things JSON serialisable (floats round-trip exactly via repr)"""
    import numpy as np

    if isinstance(o, dict):
        return {str(k): jsonable(v) for k, v in o.items()}
    if isinstance(o, (list, tuple, set, frozenset)):
        return [jsonable(v) for v in o]
    if isinstance(o, np.ndarray):
        return jsonable(o.tolist())
    if isinstance(o, (np.floating,)):
        return float(o)
    if isinstance(o, (np.integer,)):
        return int(o)
    if isinstance(o, (np.bool_,)):
        return bool(o)
    if isinstance(o, float):
        if o != o:
            return "nan"
        if o in (float("inf"), float("-inf")):
            return "inf" if o > 0 else "-inf"
        return o
    if isinstance(o, (str, int, bool)) or o is None:
        return o
    if isinstance(o, bytes):
        return o.hex()
    return repr(o)


def case_hash(case) -> str:
    return hashlib.sha1(
        json.dumps(jsonable(case), sort_keys=True).encode()
    ).hexdigest()[:16]


class Ctx:
    """what a property's run_shard() gets"""

    def __init__(self, prop, tier, seed, shard, nshards, budget_s):
        import numpy as np

        self.prop = prop
        self.tier = tier
        self.seed = seed
        self.shard = shard
        self.nshards = nshards
        self.t0 = time.time()
        self.budget_s = budget_s
        self.rng = np.random.default_rng([seed, int(prop[1:]), shard])
        self.evaluations = 0
        self.nontrivial = set()
        self.counters = {}
        self.samples = []
        self.violations = []
        self.inconclusive = []
        self.max_samples = 3
        self._per_key = {}

    # time ------------------------------------------------------------------
    def time_left(self):
        return self.budget_s - (time.time() - self.t0)

    def expired(self):
        return self.time_left() <= 0

    # accounting ------------------------------------------------------------
    def count(self, name, n=1):
        self.counters[name] = self.counters.get(name, 0) + int(n)

    def evaluated(self, case, nontrivial=False, n=1, tags=()):
        """one oracle comparison was actually executed on `case`"""
        self.evaluations += n
        if nontrivial:
            self.nontrivial.add(case_hash(case))
        for t in tags:
            self.count("tag:" + t)
        if len(self.samples) < self.max_samples:
            self.samples.append(jsonable(case))

    def violation(self, key: dict, case, detail):
        """key: structural (mechanism) descriptor used for known-finding matching"""
        k = json.dumps(jsonable(key), sort_keys=True)
        self._per_key[k] = self._per_key.get(k, 0) + 1
        # cap per mechanism key, so frequent (e.g. known) violations never crowd out a new one
        if self._per_key[k] <= 5 and len(self.violations) < 2000:
            self.violations.append(
                {"key": jsonable(key), "case": jsonable(case), "detail": jsonable(detail)}
            )
        self.count("violations_raw")

    def inconclusive_case(self, why, case=None):
        if len(self.inconclusive) < 50:
            self.inconclusive.append({"why": why, "case": jsonable(case)})
        self.count("inconclusive_cases")

    def dump(self):
        return {
            "shard": self.shard,
            "evaluations": self.evaluations,
            "nontrivial": sorted(self.nontrivial),
            "counters": self.counters,
            "samples": self.samples,
            "violations": self.violations,
            "inconclusive": self.inconclusive,
            "wall_s": time.time() - self.t0,
        }


def assert_repo():
    """the code under test must be the working tree of REPO"""
    if REPO != "/repo":
        sys.path.insert(0, REPO)
    import magpylib

    got = os.path.realpath(os.path.dirname(magpylib.__file__))
    want = os.path.realpath(os.path.join(REPO, "magpylib"))
    if got != want:
        print(f"INCONCLUSIVE reason=magpylib imported from {got}, wanted {want}")
        sys.exit(2)


def load_prop(prop):
    return importlib.import_module(f"vfw.props.{prop.lower()}")


# --------------------------------------------------------------------------- known findings
def load_known():
    p = os.path.join(VERIF, "known_findings.json")
    if not os.path.exists(p):
        return []
    return json.load(open(p))["findings"]


def classify(prop, vio, known):
    """return the known-finding entry whose `match` is a sub-dict of the violation key"""
    for e in known:
        if e.get("property") != prop or e.get("status") != "known":
            continue
        m = e.get("match", {})
        if not (m or e.get("match_in")) or not all(vio["key"].get(k) == v for k, v in m.items()):
            continue
        mi = e.get("match_in", {})
        if not all(vio["key"].get(k) in v for k, v in mi.items()):
            continue
        tags = set(vio["key"].get("tags") or [])
        anyt = e.get("match_any_tag")
        if anyt is not None and not (tags & set(anyt)):
            continue
        sub = e.get("match_tags_subset_of")  # every tag of the violation must be covered by the finding
        if sub is not None and not (tags and tags <= set(sub)):
            continue
        return e
    return None


# --------------------------------------------------------------------------- worker
def worker(args):
    os.environ.setdefault("MPLBACKEND", "Agg")
    assert_repo()
    mod = load_prop(args.prop)
    plan = mod.plan(args.tier)
    ctx = Ctx(args.prop, args.tier, args.seed, args.shard, args.nshards, plan["budget_s"])
    import faulthandler

    faulthandler.enable()
    # hang watchdog: dump the stack into the shard log shortly before the parent kills the shard
    faulthandler.dump_traceback_later(plan["budget_s"] * plan.get("watchdog_factor", 6) + 60, exit=False)
    try:
        from vfw import safety

        ctx.safety = safety.install()
        mod.run_shard(ctx)
        for k, v in ctx.safety.max_backedges.items():
            ctx.counters["max_backedges:" + k] = max(ctx.counters.get("max_backedges:" + k, 0), v)
        from vfw import objs as _objs

        if _objs.LIFECYCLE_BUILDS[0]:
            ctx.counters["trimesh_built_with_late_reorientation"] = _objs.LIFECYCLE_BUILDS[0]
        status = "ok"
        err = None
    except BaseException:  # machinery failure inside the shard
        status = "crashed"
        err = traceback.format_exc()
    out = ctx.dump()
    out["status"] = status
    out["error"] = err
    with open(args.out, "w") as f:
        json.dump(out, f)
    return 0


# --------------------------------------------------------------------------- parent
def write_evidence(prop, tier, seed, level, coverage, wall, nviol, assumptions):
    ev = {
        "property_id": prop,
        "tier": tier,
        "seed": seed,
        "level": level,
        "coverage": coverage,
        "assumptions": assumptions,
        "wall_s": round(wall, 3),
        "violations": nviol,
    }
    try:
        import jsonschema

        schema = json.load(open("/root/.vp/EVIDENCE.schema.json"))
        jsonschema.validate(ev, schema)
    except ImportError:
        pass
    except FileNotFoundError:
        pass
    # (calibration runs against seeded faults write elsewhere: evidence must describe the real tree only)
    evdir = os.environ.get("VERIF_EVIDENCE_DIR", os.path.join(VERIF, "evidence"))
    os.makedirs(evdir, exist_ok=True)
    path = os.path.join(evdir, f"{prop}.json")
    tmp = path + ".tmp"
    with open(tmp, "w") as f:
        json.dump(ev, f, indent=1)
    os.replace(tmp, path)
    return path


def parent(args):
    t0 = time.time()
    assert_repo()
    mod = load_prop(args.prop)
    plan = mod.plan(args.tier)
    nshards = int(os.environ.get("VERIF_SHARDS", plan.get("shards", 8)))
    work = os.path.join(VERIF, "evidence", ".work", f"{args.prop}.{os.getpid()}")
    os.makedirs(work, exist_ok=True)
    procs = []
    env = dict(os.environ)
    env["PYTHONHASHSEED"] = "0"
    env["MPLBACKEND"] = "Agg"
    env["MAGPYLIB_VERIF"] = "1"
    env["OMP_NUM_THREADS"] = "1"
    env["OPENBLAS_NUM_THREADS"] = "1"
    env["MKL_NUM_THREADS"] = "1"
    pp = [VERIF, os.path.join(VERIF, ".deps")]
    if REPO != "/repo":
        pp.insert(0, REPO)
    env["PYTHONPATH"] = os.pathsep.join(pp)
    for i in range(nshards):
        out = os.path.join(work, f"shard{i}.json")
        log = open(os.path.join(work, f"shard{i}.log"), "w")
        cmd = [PY, "-m", "vfw.runner", args.prop, "--tier", args.tier, "--seed", str(args.seed),
               "--worker", "--shard", str(i), "--nshards", str(nshards), "--out", out]
        procs.append((i, out, log, subprocess.Popen(cmd, cwd=VERIF, env=env, stdout=log, stderr=log)))
    watchdog = plan["budget_s"] * plan.get("watchdog_factor", 6) + 120
    results, dead = [], []
    for i, out, log, p in procs:
        remaining = max(1.0, watchdog - (time.time() - t0))
        try:
            p.wait(timeout=remaining)
        except subprocess.TimeoutExpired:
            p.kill()
            p.wait()
            try:
                tail = open(os.path.join(work, f"shard{i}.log")).read()[-1500:]
            except Exception:
                tail = ""
            dead.append((i, "watchdog " + tail))
        log.close()
        if os.path.exists(out):
            try:
                results.append(json.load(open(out)))
            except Exception:
                dead.append((i, "unreadable output"))
        elif not any(d[0] == i for d in dead):
            tail = open(os.path.join(work, f"shard{i}.log")).read()[-2000:]
            dead.append((i, f"no output rc={p.returncode}: {tail}"))

    # ---- merge
    evaluations = sum(r["evaluations"] for r in results)
    nontrivial = set()
    counters, samples, violations, inconcl, crashed = {}, [], [], [], []
    for r in results:
        nontrivial.update(r["nontrivial"])
        for k, v in r["counters"].items():
            counters[k] = max(counters.get(k, 0), v) if k.startswith("max_") else counters.get(k, 0) + v
        samples.extend(r["samples"][:2])
        violations.extend(r["violations"])
        inconcl.extend(r["inconclusive"])
        if r["status"] != "ok":
            crashed.append((r["shard"], r["error"]))

    known = load_known()
    unlisted, known_hit = [], {}
    for v in violations:
        e = classify(args.prop, v, known)
        if e is None:
            unlisted.append(v)
        else:
            known_hit.setdefault(e["key"], [e, 0])
            known_hit[e["key"]][1] += 1

    # ---- replays for unlisted violations (deduplicated by key)
    replay_paths = []
    seen_keys = set()
    rdir = os.path.join(os.environ.get("VERIF_REPLAY_DIR", os.path.join(VERIF, "replays")), args.prop)
    for v in unlisted:
        k = json.dumps(v["key"], sort_keys=True)
        if k in seen_keys:
            continue
        seen_keys.add(k)
        if len(replay_paths) >= 40:
            break
        os.makedirs(rdir, exist_ok=True)
        path = os.path.join(rdir, case_hash(v) + ".json")
        with open(path, "w") as f:
            json.dump({"property": args.prop, "seed": args.seed, "tier": args.tier, **v}, f, indent=1)
        replay_paths.append((path, v))

    # ---- verdict
    required = plan.get("required_counters", [])
    missing = [c for c in required if counters.get(c, 0) <= 0]
    reasons = []
    if dead:
        reasons.append("shards died: " + "; ".join(f"{i}:{w[-1200:]}" for i, w in dead))
    if crashed:
        reasons.append("shards crashed: " + "; ".join(f"{i}:{(e or '')[-600:]}" for i, e in crashed))
    if evaluations <= 0:
        reasons.append("deciding monitor performed 0 evaluations")
    if missing:
        reasons.append("monitors never reached: " + ",".join(missing))

    coverage = {
        "evaluations": evaluations,
        "distinct_nontrivial": len(nontrivial),
        "rule": getattr(mod, "RULE", ""),
        "samples": samples[:6] if samples else [],
        "monitors": {k: v for k, v in sorted(counters.items())},
        "shards": nshards,
        "inconclusive_cases": len(inconcl),
        "inconclusive_examples": inconcl[:3],
        "known_findings_hit": {k: n for k, (e, n) in known_hit.items()},
        "unlisted_violations": len(unlisted),
        "machinery_failures": reasons,
    }
    if plan.get("exhaustive"):
        coverage["exhaustive"] = True
        coverage["exhaustive_over"] = plan["exhaustive"]
    for k, v in plan.get("coverage_extra", {}).items():
        coverage[k] = v
    wall = time.time() - t0
    try:
        write_evidence(args.prop, args.tier, args.seed, mod.LEVEL, coverage, wall, len(unlisted),
                       getattr(mod, "ASSUMPTIONS", []))
    except Exception as e:  # evidence invalid => do not pretend
        print(f"evidence not written: {e!r}"[:2000])
        reasons.append("evidence invalid")

    print(f"[{args.prop}] tier={args.tier} seed={args.seed} shards={nshards} evaluations={evaluations} "
          f"distinct_nontrivial={len(nontrivial)} wall={wall:.1f}s")
    shown = {k: v for k, v in sorted(counters.items()) if not k.startswith("tag:")}
    print(f"[{args.prop}] monitors: {json.dumps(shown)}")
    tags = {k[4:]: v for k, v in sorted(counters.items()) if k.startswith("tag:")}
    if tags:
        print(f"[{args.prop}] tags: {json.dumps(tags)}")
    for k, (e, n) in known_hit.items():
        print(f"KNOWN-FINDING: property={args.prop} {e['what_fails']} [key={k}, hits={n}]")
    if unlisted:
        keys = {}
        for v in unlisted:
            k = json.dumps(v["key"], sort_keys=True)
            keys[k] = keys.get(k, 0) + 1
        print(f"[{args.prop}] unlisted violation keys ({len(keys)}):")
        for k, n in sorted(keys.items(), key=lambda kv: -kv[1])[:60]:
            print(f"      {n:5d} x {k}")
        for path, v in replay_paths:
            print(f"VIOLATION property={args.prop} replay={path}")
            print(f"   key={json.dumps(v['key'])} detail={json.dumps(v['detail'])[:600]}")
        for r in reasons:
            print(f"INCONCLUSIVE-PART property={args.prop} reason={r}")
        import shutil
        shutil.rmtree(work, ignore_errors=True)
        return 1
    import shutil

    if reasons:
        for r in reasons:
            print(f"INCONCLUSIVE property={args.prop} reason={r}")
        return 2
    shutil.rmtree(work, ignore_errors=True)
    print(f"[{args.prop}] HELD on what was observed")
    return 0


def replay(args):
    os.environ.setdefault("MPLBACKEND", "Agg")
    assert_repo()
    mod = load_prop(args.prop)
    rec = json.load(open(args.replay))
    ctx = Ctx(args.prop, "replay", rec.get("seed", 0), 0, 1, 3600)
    from vfw import safety

    ctx.safety = safety.install()
    mod.replay(ctx, rec["case"])
    known = load_known()
    bad = 0
    for v in ctx.violations:
        e = classify(args.prop, v, known)
        if e:
            print(f"KNOWN-FINDING: property={args.prop} {e['what_fails']}")
        else:
            bad += 1
            print(f"VIOLATION property={args.prop} replay={args.replay}")
            print(f"   key={json.dumps(v['key'])} detail={json.dumps(v['detail'])[:1500]}")
    if not ctx.violations:
        print(f"[{args.prop}] replay: no violation reproduced ({ctx.evaluations} evaluations)")
    return 1 if bad else 0


def main():
    ap = argparse.ArgumentParser()
    ap.add_argument("prop")
    ap.add_argument("--tier", default=os.environ.get("VERIF_TIER", "quick"), choices=["quick", "thorough"])
    ap.add_argument("--seed", type=int, default=int(os.environ.get("VERIF_SEED", "0")))
    ap.add_argument("--replay")
    ap.add_argument("--worker", action="store_true")
    ap.add_argument("--shard", type=int, default=0)
    ap.add_argument("--nshards", type=int, default=1)
    ap.add_argument("--out")
    args = ap.parse_args()
    args.prop = args.prop.upper()
    if args.worker:
        sys.exit(worker(args))
    if args.replay:
        sys.exit(replay(args))
    sys.exit(parent(args))


if __name__ == "__main__":
    main()
